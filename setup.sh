#!/bin/sh
# Offline setup: make sure hypothesis is importable by /venv/bin/python.
set -e
HERE="$(cd "$(dirname "$0")" && pwd)"
if ! /venv/bin/python -c "import hypothesis" 2>/dev/null; then
    PIP_NO_INDEX=1 /venv/bin/pip install --no-index --find-links /opt/veriftools/wheels hypothesis
fi
/venv/bin/python -c "import hypothesis; print('hypothesis', hypothesis.__version__)"
mkdir -p "$HERE/evidence" "$HERE/out"
