#!/bin/sh
# usage: tools/seedsuite.sh <ID>...   applies /tmp/seed_<ID>/patch.diff to a fresh worktree of /repo HEAD, runs the pinned suite there
# and compares the FAILED ids with the baseline always_fail list
for id in "$@"; do
  wt=/tmp/seedver_$id
  git -C /repo worktree remove --force $wt 2>/dev/null
  git -C /repo worktree add -q $wt HEAD || { echo "$id WORKTREE-FAILED"; continue; }
  if ! git -C $wt apply /tmp/seed_$id/patch.diff; then echo "$id PATCH-DOES-NOT-APPLY"; git -C /repo worktree remove --force $wt; continue; fi
  (cd $wt && /venv/bin/python -m pytest -q -p no:cacheprovider --timeout=900 --continue-on-collection-errors beartype_test > /tmp/seed_$id.suite.log 2>&1)
  grep "^FAILED\|^ERROR" /tmp/seed_$id.suite.log | sed 's/ - .*//; s/^FAILED //; s/^ERROR //' | sed 's#/#.#g; s#\.py::#::#' | sort > /tmp/seed_$id.failed.txt
  [ -f /tmp/always_fail.txt ] || /venv/bin/python -c "import json; print(\"\\n\".join(json.load(open(\"/root/.vp/BASELINE.json\"))[\"always_fail\"]))" > /tmp/always_fail.txt
  sort /tmp/always_fail.txt > /tmp/always_fail.sorted
  if diff -q /tmp/seed_$id.failed.txt /tmp/always_fail.sorted >/dev/null; then echo "$id SUITE-OK $(tail -1 /tmp/seed_$id.suite.log)"; else echo "$id SUITE-DIFFERS"; diff /tmp/seed_$id.failed.txt /tmp/always_fail.sorted | head; fi
  git -C /repo worktree remove --force $wt
done
