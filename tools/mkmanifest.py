#!/venv/bin/python
"""Regenerate /verif/MANIFEST.json from the table below (keeps it schema-valid)."""
import json, os, sys
HERE = os.path.dirname(os.path.dirname(os.path.abspath(__file__)))
sys.path.insert(0, HERE)
from tools.manifest_table import CHECKS, NOT_APPLICABLE, HOOK_COMMITS

props = [json.loads(l) for l in open(os.path.join(HERE, 'properties.jsonl'))]
ids = [p['id'] for p in props]
checks = []
for pid in ids:
    if pid not in CHECKS:
        continue
    c = CHECKS[pid]
    checks.append({
        'property_id': pid,
        'quick_cmd': './check %s --tier quick' % pid,
        'thorough_cmd': './check %s --tier thorough' % pid,
        'evidence_file': 'evidence/%s.json' % pid,
        'replay_cmd_template': './check %s --replay {path}' % pid,
        'engine': 'vlib',
        'level_claimed': {'category': 'exploration', 'text': c['text'], 'design_ref': 'DESIGN.md section 2, ' + pid},
        'level_note': c['note'],
        'technique': c['technique'],
    })
na = [{'property_id': pid, 'reason': NOT_APPLICABLE.get(pid, 'check not built yet (work in progress); not claimed')}
      for pid in ids if pid not in CHECKS]
m = {
    'version': 1,
    'setup_cmd': 'sh ./setup.sh',
    'hooks': {
        'guard': 'BEARTYPE_VERIF',
        'enable': 'no source hooks: checks import /repo/beartype in a fresh interpreter and observe from outside '
                  '(random.getrandbits, threading.Lock and sys.settrace are patched in the harness process only); '
                  'BEARTYPE_VERIF=1 is exported by ./check but nothing in /repo reads it',
        'baseline_off_cmd': 'cd /repo && /venv/bin/python -m pytest -ra -q -p no:cacheprovider --timeout=900 --continue-on-collection-errors',
        'source_commits': HOOK_COMMITS,
        'add_only': True,
    },
    'engines': [{'name': 'vlib', 'path': 'vlib/runner.py', 'serves_properties': [c['property_id'] for c in checks],
                 'kind_free_text': 'Hypothesis-driven generated search in collect mode (16 seeded shards), explicit oracle per property, '
                                   'root-cause bucketing, Hypothesis shrinking to a JSON replay, deterministic replay tier'}],
    'checks': checks,
    'not_applicable': na,
    'notes': 'Every check: exit 0 held / 1 VIOLATION line(s) / 2 harness error. known_findings.json lists genuine defects (known or fixed).',
}
json.dump(m, open(os.path.join(HERE, 'MANIFEST.json'), 'w'), indent=1)
print('checks:', [c['property_id'] for c in checks])
try:
    import jsonschema
    jsonschema.validate(m, json.load(open('/root/.vp/MANIFEST.schema.json')))
    print('schema ok')
except ImportError:
    print('jsonschema not available here')
