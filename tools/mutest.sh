#!/bin/sh
# usage: tools/mutest.sh <name> '<sed-expr>' <file-relative-to-repo> <ID> [<ID>...]
# Applies a one-line mutation in a scratch worktree of /repo (never in /repo), runs the quick checks
# of the given properties against it and removes the worktree.
name=$1; expr=$2; file=$3; shift 3
wt=/tmp/wt_mut_$name
git -C /repo worktree remove --force $wt 2>/dev/null
git -C /repo worktree add -q $wt HEAD || exit 2
sed -i "$expr" $wt/$file
(cd $wt && git diff --stat | tail -1)
for id in "$@"; do
  VERIF_REPO=$wt /verif/check $id --tier quick --no-shrink 2>&1 | grep -E "^VIOLATION|tier=" | head -4
done
git -C /repo worktree remove --force $wt
