#!/venv/bin/python
"""usage: tools/seedreplays.py <SEED_ID>...   (ids of /verif/seeded/<ID>)

For each kept seeded change: apply its patch to a scratch worktree of /repo HEAD, run the quick check of its property against
that tree (with shrinking), and save up to 3 of the smallest cases that detect it as replays/<PID>/seed_<ID>_<n>.json - but
only cases that pass on the unchanged tree.  The replay tier then re-executes them on every run, which makes the detection
of exactly these changes independent of the random search (and of the load of the machine)."""
import glob
import json
import os
import subprocess
import sys

VERIF = os.path.dirname(os.path.dirname(os.path.abspath(__file__)))


def sh(*a, **k):
    return subprocess.run(a, capture_output=True, text=True, **k)


def main():
    for sid in sys.argv[1:]:
        meta = json.load(open(os.path.join(VERIF, 'seeded', sid, 'meta.json')))
        pid = meta['property']
        wt = '/tmp/seedrp_%s' % sid
        sh('git', '-C', '/repo', 'worktree', 'remove', '--force', wt)
        if sh('git', '-C', '/repo', 'worktree', 'add', '-q', wt, 'HEAD').returncode:
            print(sid, 'WORKTREE-FAILED')
            continue
        try:
            if sh('git', '-C', wt, 'apply', os.path.join(VERIF, 'seeded', sid, 'patch.diff')).returncode:
                print(sid, 'PATCH-DOES-NOT-APPLY')
                continue
            for f in glob.glob(os.path.join(VERIF, 'out', pid, 'viol-*.json')):
                os.remove(f)
            sh(os.path.join(VERIF, 'check'), pid, '--tier', 'quick', env=dict(os.environ, VERIF_REPO=wt), cwd=VERIF)
            found = []
            for f in sorted(glob.glob(os.path.join(VERIF, 'out', pid, 'viol-*.json'))):
                d = json.load(open(f))
                found.append((len(json.dumps(d['case'])), d))
            found.sort(key=lambda t: t[0])
            kept = 0
            rdir = os.path.join(VERIF, 'replays', pid)
            os.makedirs(rdir, exist_ok=True)
            for _size, d in found:
                if kept >= 3:
                    break
                path = os.path.join(rdir, 'seed_%s_%d.json' % (sid, kept + 1))
                json.dump({'note': 'detects seeded change %s (sig %s); passes on the unchanged tree' % (sid, d['sig'][:120]), 'case': d['case']},
                          open(path, 'w'))
                # must be quiet on the unchanged tree and loud on the seeded one
                clean = sh(os.path.join(VERIF, 'check'), pid, '--replay', path, cwd=VERIF)
                seeded = sh(os.path.join(VERIF, 'check'), pid, '--replay', path, env=dict(os.environ, VERIF_REPO=wt), cwd=VERIF)
                if clean.returncode == 0 and 'VIOLATION' not in clean.stdout and seeded.returncode == 1:
                    kept += 1
                else:
                    os.remove(path)
            print(sid, pid, 'signatures found: %d, replays kept: %d' % (len(found), kept))
        finally:
            sh('git', '-C', '/repo', 'worktree', 'remove', '--force', wt)


if __name__ == '__main__':
    main()
