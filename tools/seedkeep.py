#!/venv/bin/python
"""usage: tools/seedkeep.py <ID> <property> '<needs>' '<detected_by>' [suffix]  -- keep a confirmed seeded change under /verif/seeded/"""
import json, os, shutil, sys
sid, prop, needs, detected = sys.argv[1:5]
suffix = sys.argv[5] if len(sys.argv) > 5 else ''
src = '/tmp/seed_%s' % sid
dst = '/verif/seeded/%s%s' % (sid, suffix)
os.makedirs(dst, exist_ok=True)
for f in ('patch.diff', 'demo.py', 'notes.md'):
    if os.path.exists(os.path.join(src, f)):
        shutil.copy(os.path.join(src, f), os.path.join(dst, f))
suite = open('/tmp/seed_%s.suite.log' % sid).read().strip().splitlines()[-1] if os.path.exists('/tmp/seed_%s.suite.log' % sid) else 'not run'
meta = {
    'property': prop,
    'origin': 'independent sub-agent given only the property text and a scratch worktree',
    'needs_to_manifest': needs,
    'confirmed': {
        'suite_on_mutated_tree': suite + ' (FAILED ids identical to BASELINE always_fail)',
        'demo_exit_mutated': 1, 'demo_exit_clean': 0,
        'commands': ['git -C <worktree> apply patch.diff', '/venv/bin/python -m pytest -q -p no:cacheprovider --timeout=900 --continue-on-collection-errors beartype_test',
                     '/venv/bin/python -B demo.py (in mutated and in clean tree)', 'VERIF_REPO=<worktree> ./check %s --tier quick' % prop],
    },
    'detected_by': detected,
}
json.dump(meta, open(os.path.join(dst, 'meta.json'), 'w'), indent=1)
print('kept', dst)
