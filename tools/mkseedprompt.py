"""usage: tools/mkseedprompt.py <PID> <TAG> ['<what earlier seeders already did, to be avoided>']
Writes /tmp/agent_prompt_<TAG>.txt (the complete brief of an independent fault-seeding sub-agent: property text + scratch worktree only,
nothing from /verif) and creates the scratch worktree /tmp/seedwt_<TAG> of /repo HEAD."""
import json
import os
import subprocess
import sys

pid, tag = sys.argv[1], sys.argv[2]
avoid = sys.argv[3] if len(sys.argv) > 3 else ''
prop = next(json.loads(l) for l in open(os.path.join(os.path.dirname(__file__), '..', 'properties.jsonl')) if json.loads(l)['id'] == pid)
wt = '/tmp/seedwt_%s' % tag
out = '/tmp/seed_%s' % tag
text = open('/tmp/agent_prompt_C15.txt').read() if False else None
T = '''You are helping to evaluate a verification effort for the open-source Python library **beartype** (a runtime type checker that compiles type hints into generated check code). Your job is to act as a careful "fault seeder".

## The property
Property {pid}: {title}

Statement: {statement}

Quantified over: {quant}

(For orientation only, the code this property is anchored in includes: {files})

## Your task
Work ONLY inside the git worktree `{wt}` (a checkout of the beartype repository; it is yours, edit freely). Do NOT read or touch `/verif` or `/repo` - you must work independently of anything there.

Produce ONE realistic change to the beartype source code (under `{wt}/beartype/`) that BREAKS the property above while:
1. the package still imports and "compiles" (no syntax errors, no import-time failures), and
2. the existing pinned test suite still passes exactly as before. The suite is run with:
   `cd {wt} && /venv/bin/python -m pytest -q -p no:cacheprovider --timeout=900 --continue-on-collection-errors beartype_test 2>&1 | tail -30`  (a full run takes 5-20 minutes; compare the FAILED lines with /tmp/always_fail.txt). IMPORTANT: 15 tests already fail on the unmodified tree in this sandbox (listed in `/tmp/always_fail.txt`); those may keep failing, but no OTHER test may fail. Verify with `python -c "import beartype; print(beartype.__file__)"` run from inside the worktree directory that the worktree copy is the one being imported.
3. the breakage is NOT something ordinary everyday use would expose at once. It should need something specific to manifest: an unusual input shape, a particular configuration option, a multi-step sequence of operations, a particular sampler draw / container length / index, a specific nesting depth, two cooperating code sites that each look fine alone, etc. Think of a plausible developer mistake (an off-by-one, a wrong variable, a dropped condition, an over-eager optimisation, a cache keyed by too little), not sabotage; keep the diff small (a few lines).
{avoid}
Also write a demonstration: a small standalone Python program `demo.py` that puts the current working directory first on sys.path so that it imports the beartype of the tree it is run in (run as `cd <tree> && /venv/bin/python -B demo.py`), exercises the public API, and exits with status 1 (printing what went wrong) when run against your modified tree and with status 0 when run against the unmodified tree. Confirm both yourself: the unmodified tree can be obtained with `git -C {wt} stash` / `stash pop` (or `git diff > patch.diff; git checkout -- .; ...; git apply patch.diff`).

## Deliverables (write them to `{out}/`)
- `patch.diff`  - output of `git -C {wt} diff` (must apply cleanly with `git apply` to a clean checkout)
- `demo.py`     - the demonstration described above
- `notes.md`    - 10-20 lines: what the change is, why it violates the property, exactly what is needed for it to manifest, and the exact commands you ran to confirm (a) the test suite result and (b) demo.py failing with / passing without the change.

Leave the worktree with your change applied. Make sure any helper processes you start are terminated before you finish. Be rigorous: a change that makes one of the previously passing tests fail, or a demo that does not discriminate, is useless. Do not weaken or edit any test. Your final message should summarise the change in a few sentences.
'''
avoid_txt = ('\nAn earlier seeder already produced this change for the same property; yours must use a DIFFERENT mechanism in a different '
             'part of the code and need a different kind of input to manifest: %s\n' % avoid) if avoid else ''
open('/tmp/agent_prompt_%s.txt' % tag, 'w').write(T.format(pid=pid, title=prop['title'], statement=prop['statement'], quant=prop['quantifier']['text'],
                                                        files=', '.join(prop['anchors']['files'][:10]), wt=wt, out=out, avoid=avoid_txt))
os.makedirs(out, exist_ok=True)
subprocess.run(['git', '-C', '/repo', 'worktree', 'remove', '--force', wt], capture_output=True)
subprocess.check_call(['git', '-C', '/repo', 'worktree', 'add', '-q', wt, 'HEAD'])
print('/tmp/agent_prompt_%s.txt' % tag, wt)
