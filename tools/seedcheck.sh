#!/bin/sh
# usage: tools/seedcheck.sh <ID> [<check IDs...>]   -- evaluates the seeded change delivered in /tmp/seed_<ID> (worktree /tmp/seedwt_<ID>)
id=$1; shift
checks=${@:-$id}
wt=/tmp/seedwt_$id
src=/tmp/seed_$id
echo "== demo on mutated tree"; (cd $wt && PYTHONPATH=$wt /venv/bin/python -B $src/demo.py >/tmp/seed_$id.demo_mut.log 2>&1; echo "exit $?")
echo "== demo on clean tree"; (cd /repo && PYTHONPATH=/repo /venv/bin/python -B $src/demo.py >/tmp/seed_$id.demo_clean.log 2>&1; echo "exit $?")
echo "== patch applies to clean HEAD?"; git -C /repo apply --check $src/patch.diff && echo yes
for c in $checks; do
  echo "== check $c on mutated tree"
  VERIF_REPO=$wt /verif/check $c --tier quick 2>&1 | grep -E "^VIOLATION|^violation|tier=|HARNESS" | cut -c1-400 | head -8
done
