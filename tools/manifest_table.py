HOOK_COMMITS = []
NOT_APPLICABLE = {}
_GRAMMAR_NOTE = ('Bounded exploration. Trusted: the reference semantics in vlib/hints.py (hint grammar of ~25 node kinds incl. unions, literals, '
                 'fixed/variadic tuples, sequences, sets, deques, views, mappings, counters, quasi-iterables, type[...], TypeVars, NewTypes, Annotated, '
                 'protocols, a user generic), the controlled 32-bit sampler (random.getrandbits replaced before beartype is imported), Hypothesis as generator. '
                 'Hint depth <= 3 quick / 5 thorough, container sizes 0..8 (12 for reachability). NumPy and other third-party hints are not covered.')
CHECKS = {
 'C01': {
  'technique': 'property-based testing: conforming objects built by construction from a hint grammar, reference-semantics oracle, all draws x 7 entry points',
  'text': 'Hypothesis draws a hint from the shared grammar and builds a member object by construction (re-validated by an independent full-depth reference '
          'semantics); is_bearable, die_if_unbearable, both TypeHint methods, a decorated parameter, a decorated return and an identity function must accept it '
          'for every sampler draw in 0..len-1 plus boundary and random 32-bit draws, under generated configurations (is_random, O1/Ologn/On, verbosity, colour, violation types).',
  'note': _GRAMMAR_NOTE,
 },
 'C02': {
  'technique': 'property-based testing: violation injection at generated paths + must_reject reference oracle; exhaustive draws 0..n-1 for sequence reachability',
  'text': 'A violation is injected at a generated path of a conforming object; whenever the reference semantics says the violation is draw-independent '
          '(wrong class, fixed-tuple length/position, literal, type[...], all union members, failed validator, every item violating) all entry points must reject '
          'for every draw under is_random in {True, False}. For sequences with exactly one draw-independent defect at index i of n, some draw in 0..n-1 must reject, '
          'and with is_random=False the object is rejected iff i == 0.',
  'note': _GRAMMAR_NOTE,
 },
 'C03': {
  'technique': 'property-based testing: differential between the six entry points under one controlled draw + validity predicate on the raised/warned violation',
  'text': 'For generated (hint, object, configuration, draw) including middle-zone objects whose verdict depends on the draw, the six entry points must agree; '
          'every rejection must be exactly the class selected by violation_type / violation_door_type / violation_param_type / violation_return_type (warned, '
          'with the call proceeding, for Warning classes), name the hint in its message and start its culprits with the object; any other exception is a violation.',
  'note': _GRAMMAR_NOTE,
 },
 'C17': {
  'technique': 'property-based testing: generated creation histories, fresh-process differential + validity model + algebraic laws',
  'text': 'Hypothesis generates histories of up to 6 BeartypeConf constructions plus a final one from per-option pools of valid, invalid and '
          'look-alike values (1/True, IntEnum ints, list/tuple, dict/FrozenDict, BEARTYPE_IS_COLOR variants). Each history runs in a forked '
          'pristine process; the final outcome is compared with a sibling fork running only the final call and with an independent validity model; '
          'identity under keyword permutation, eq/hash coherence, option read-back and the kwargs round trip are asserted on every configuration created.',
  'note': 'Bounded exploration (about 1.2k histories quick, 40k thorough); value pools are finite and hand-chosen from the documented option types; thread identity is covered by C15.',
 },
 'C04': {
  'technique': 'property-based testing: generated signatures x call shapes, differential against the interpreter\'s own binder (undecorated twin); exhaustive enumeration of small signatures in the thorough tier',
  'text': 'Signatures over the five parameter kinds (any annotated subset, any defaults incl. hint-violating ones, optional return annotation) and call shapes '
          '(positional/keyword mixes, missing, surplus, duplicate, keywords colliding with positional-only names) are generated; an undecorated twin returning '
          'dict(locals()) decides whether and how the call binds. Asserted: conforming calls run the original exactly once with the identical objects and return/raise '
          'the identical object; a violating bound value raises a parameter violation naming a violating parameter without running the original; unbindable calls raise '
          'TypeError or a parameter violation without running it; unpassed defaults are never checked; violating returns raise the return violation.',
  'note': 'Bounded: <= 9 parameters, 4 draw-independent hints; thorough tier enumerates all signatures with <= 3 parameters x calls with <= 3 positional and <= 2 keyword arguments. Trusted: CPython argument binding.',
 },
 'C12': {
  'technique': 'property-based testing: generated validator expression trees and objects, reference evaluator of the boolean meaning',
  'text': 'Validator trees over Is/IsAttr/IsEqual/IsInstance/IsSubclass with & | ~ (depth <= 5 quick / 8 thorough, 1-3 per Annotated, attribute names colliding after mangling) '
          'and objects shaped after the expressions (nested attribute bags, missing attributes, classes and non-classes) are generated; is_valid, is_bearable, '
          'die_if_unbearable, a decorated call, get_diagnosis and the diagnosis block of the violation message must all equal my evaluator of the boolean meaning.',
  'note': 'Bounded exploration; predicates are named total functions; trusted: the 20-line evaluator meaning() in vlib/props/c12.py.',
 },
 'C18': {
  'technique': 'property-based testing: metamorphic relation conf-rewritten hint vs hand-rewritten hint under the same controlled draw',
  'text': 'float / complex / overridden sub-hints are injected at generated depths of grammar hints; my own structural rewrite produces the hand-written hint; all six '
          'entry points must give the same verdict and signal class for (H, is_pep484_tower/hint_overrides conf) and (rewritten H, same conf without them) for each draw, '
          'with violation_* options varied on both sides.',
  'note': _GRAMMAR_NOTE + ' Override keys are restricted to hints that occur only as ordinary sub-hints (see evidence assumptions).',
 },
 'C19': {
  'technique': 'property-based testing: widening-chain generator for (A, B, C), algebraic laws + object-level soundness against the reference semantics and is_bearable',
  'text': 'Triples are generated as widening chains (so that the relation holds often) or at random, plus literal look-alike probes; reflexivity, transitivity on '
          'beartype\'s answers, soundness on objects built to conform to A (checked against B by is_bearable for every draw and by the reference semantics), and the '
          'TypeHint laws (memoisation, eq => equal hash and mutual subhints, len/iter/getitem/contains coherence) are asserted.',
  'note': _GRAMMAR_NOTE + ' Completeness of is_subhint is not asserted; undecidable answers (documented exception) are counted as unanswered; Hashable is excluded (issubclass(Collection, Hashable) is True in Python itself).',
 },
 'C20': {
  'technique': 'property-based testing: round trip is_bearable(obj, infer_hint(obj)) over a recursive object generator, all draws',
  'text': 'Objects are generated recursively (scalars, enums, builtin and collections containers of any nesting and item mix, dict views, ranges, '
          'user-defined Sequence/Mapping/Set by ABC and by dunder methods, callables, classes, iterators, self-referential and mutually recursive containers); '
          'the hint inferred under the default configuration must accept the object for every draw 0..len-1 and boundary draws; directly recursive containers must '
          'terminate with a recursion warning. Failures are attributed to a minimal failing sub-object.',
  'note': 'Bounded exploration (depth <= 3 quick / 4 thorough, <= 4 items per level). Third-party containers (NumPy etc.) are not generated.',
 },
}
