HOOK_COMMITS = []
NOT_APPLICABLE = {}
CHECKS = {
 'C17': {
  'technique': 'property-based testing: generated creation histories, fresh-process differential + validity model + algebraic laws',
  'text': 'Hypothesis generates histories of up to 6 BeartypeConf constructions plus a final one from per-option pools of valid, invalid and '
          'look-alike values (1/True, IntEnum ints, list/tuple, dict/FrozenDict, BEARTYPE_IS_COLOR variants). Each history runs in a forked '
          'pristine process; the final outcome is compared with a sibling fork running only the final call and with an independent validity model; '
          'identity under keyword permutation, eq/hash coherence, option read-back and the kwargs round trip are asserted on every configuration created.',
  'note': 'Bounded exploration (about 1.2k histories quick, 40k thorough); value pools are finite and hand-chosen from the documented option types; thread identity is covered by C15.',
 },
}
