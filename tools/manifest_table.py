HOOK_COMMITS = []
NOT_APPLICABLE = {}
_GRAMMAR_NOTE = ('Bounded exploration. Trusted: the reference semantics in vlib/hints.py (hint grammar of ~25 node kinds incl. unions, literals, '
                 'fixed/variadic tuples, sequences, sets, deques, views, mappings, counters, quasi-iterables, type[...], TypeVars, NewTypes, Annotated, '
                 'protocols, a user generic), the controlled 32-bit sampler (random.getrandbits replaced before beartype is imported), Hypothesis as generator. '
                 'Hint depth <= 3 quick / 5 thorough, container sizes 0..8 (12 for reachability). NumPy and other third-party hints are not covered.')
CHECKS = {
 'C01': {
  'technique': 'property-based testing: conforming objects built by construction from a hint grammar, reference-semantics oracle, all draws x 7 entry points + 8 signature shapes (keyword-only, positional-only, defaulted, *args, **kwargs next to unhinted parameters)',
  'text': 'Hypothesis draws a hint from the shared grammar and builds a member object by construction (re-validated by an independent full-depth reference '
          'semantics); is_bearable, die_if_unbearable, both TypeHint methods, a decorated parameter, a decorated return and an identity function must accept it '
          'for every sampler draw in 0..len-1 plus boundary and random 32-bit draws, under generated configurations (is_random, O1/Ologn/On, verbosity, colour, violation types).',
  'note': _GRAMMAR_NOTE,
 },
 'C02': {
  'technique': 'property-based testing: violation injection at generated paths + must_reject reference oracle; exhaustive draws 0..n-1 for sequence reachability',
  'text': 'A violation is injected at a generated path of a conforming object; whenever the reference semantics says the violation is draw-independent '
          '(wrong class, fixed-tuple length/position, literal, type[...], all union members, failed validator, every item violating) all entry points must reject '
          'for every draw under is_random in {True, False}. For sequences with exactly one draw-independent defect at index i of n, some draw in 0..n-1 must reject, '
          'and with is_random=False the object is rejected iff i == 0.',
  'note': _GRAMMAR_NOTE,
 },
 'C03': {
  'technique': 'property-based testing: differential between the six entry points under one controlled draw + validity predicate on the raised/warned violation',
  'text': 'For generated (hint, object, configuration, draw) including middle-zone objects whose verdict depends on the draw, the six entry points must agree; '
          'every rejection must be exactly the class selected by violation_type / violation_door_type / violation_param_type / violation_return_type (warned, '
          'with the call proceeding, for Warning classes), name the hint in its message and start its culprits with the object; any other exception is a violation.',
  'note': _GRAMMAR_NOTE,
 },
 'C17': {
  'technique': 'property-based testing: generated creation histories, fresh-process differential + validity model + algebraic laws; exhaustive enumeration of the single-option part of the domain',
  'text': 'Hypothesis generates histories of up to 6 BeartypeConf constructions plus a final one from per-option pools of valid, invalid and '
          'look-alike values (1/True, IntEnum ints, list/tuple, dict/FrozenDict, BEARTYPE_IS_COLOR variants). Each history runs in a forked '
          'pristine process; the final outcome is compared with a sibling fork running only the final call and with an independent validity model; '
          'identity under keyword permutation, eq/hash coherence, option read-back and the kwargs round trip are asserted on every configuration created. Every (option, pool value) '
          'pair alone and every ordered pair of distinct valid values of one option are enumerated in both tiers.',
  'note': 'Bounded exploration (about 1.2k histories quick, 40k thorough); value pools are finite and hand-chosen from the documented option types; thread identity is covered by C15.',
 },
 'C04': {
  'technique': 'property-based testing: generated signatures x call shapes, differential against the interpreter\'s own binder (undecorated twin); exhaustive enumeration of small signatures in the thorough tier',
  'text': 'Signatures over the five parameter kinds (any annotated subset, any defaults incl. hint-violating ones, optional return annotation) and call shapes '
          '(positional/keyword mixes, missing, surplus, duplicate, keywords colliding with positional-only names) are generated; an undecorated twin returning '
          'dict(locals()) decides whether and how the call binds. Asserted: conforming calls run the original exactly once with the identical objects and return/raise '
          'the identical object; a violating bound value raises a parameter violation naming a violating parameter without running the original; unbindable calls raise '
          'TypeError or a parameter violation without running it; unpassed defaults are never checked; violating returns raise the return violation.',
  'note': 'Bounded: <= 9 parameters, 4 draw-independent hints; thorough tier enumerates all signatures with <= 3 parameters x calls with <= 3 positional and <= 2 keyword arguments. Trusted: CPython argument binding.',
 },
 'C12': {
  'technique': 'property-based testing: generated validator expression trees and objects, reference evaluator of the boolean meaning + coverage-guided fuzzing (atheris/libFuzzer over the same strategy and oracle, thorough tier)',
  'text': 'Validator trees over Is/IsAttr/IsEqual/IsInstance/IsSubclass with & | ~ (depth <= 5 quick / 8 thorough, 1-3 per Annotated, attribute names colliding after mangling) '
          'and objects shaped after the expressions (nested attribute bags, missing attributes, classes and non-classes) are generated; is_valid, is_bearable, '
          'die_if_unbearable, a decorated call, get_diagnosis and the diagnosis block of the violation message must all equal my evaluator of the boolean meaning.',
  'note': 'Bounded exploration; predicates are named total functions; trusted: the 20-line evaluator meaning() in vlib/props/c12.py.',
 },
 'C18': {
  'technique': 'property-based testing: metamorphic relation conf-rewritten hint vs hand-rewritten hint under the same controlled draw + coverage-guided fuzzing (atheris/libFuzzer over the same strategy and oracle, thorough tier)',
  'text': 'float / complex / overridden sub-hints are injected at generated depths of grammar hints; my own structural rewrite produces the hand-written hint; all six '
          'entry points must give the same verdict and signal class for (H, is_pep484_tower/hint_overrides conf) and (rewritten H, same conf without them) for each draw, '
          'with violation_* options varied on both sides.',
  'note': _GRAMMAR_NOTE + ' Override keys are restricted to hints that occur only as ordinary sub-hints (see evidence assumptions).',
 },
 'C19': {
  'technique': 'property-based testing: widening-chain generator for (A, B, C), algebraic laws + object-level soundness against the reference semantics and is_bearable + coverage-guided fuzzing (atheris/libFuzzer over the same strategy and oracle, thorough tier)',
  'text': 'Triples are generated as widening chains (so that the relation holds often) or at random, plus literal look-alike probes; reflexivity, transitivity on '
          'beartype\'s answers, soundness on objects built to conform to A (checked against B by is_bearable for every draw and by the reference semantics), and the '
          'TypeHint laws (memoisation, eq => equal hash and mutual subhints, len/iter/getitem/contains coherence) are asserted.',
  'note': _GRAMMAR_NOTE + ' Completeness of is_subhint is not asserted; undecidable answers (documented exception) are counted as unanswered; Hashable is excluded (issubclass(Collection, Hashable) is True in Python itself).',
 },
 'C20': {
  'technique': 'property-based testing: round trip is_bearable(obj, infer_hint(obj)) over a recursive object generator, all draws + coverage-guided fuzzing (atheris/libFuzzer over the same strategy and oracle, thorough tier)',
  'text': 'Objects are generated recursively (scalars, enums, builtin and collections containers of any nesting and item mix, dict views, ranges, '
          'user-defined Sequence/Mapping/Set by ABC and by dunder methods, callables, classes, iterators, self-referential and mutually recursive containers); '
          'the hint inferred under the default configuration must accept the object for every draw 0..len-1 and boundary draws; directly recursive containers must '
          'terminate with a recursion warning. Failures are attributed to a minimal failing sub-object.',
  'note': 'Bounded exploration (depth <= 3 quick / 4 thorough, <= 4 items per level). Third-party containers (NumPy etc.) are not generated.',
 },
 'C06': {
  'technique': 'model-based property testing: generated hook histories executed in a forked pristine process against a declarative longest-prefix model',
  'text': 'Hypothesis generates histories of beartype_all / beartype_package(s) / beartype_this_package calls and nested beartyping() blocks over a dotted '
          'name alphabet with look-alike prefixes and ten configurations (six with skip lists, incl. ancestor/descendant pairs); each history runs in a forked '
          'pristine process in lock step with a 30-line model (registered map, all-conf, skip set, block stack). After every step all 15 names are queried through '
          'get_package_conf_or_none and the presence of the path hook is compared; conflicts must raise BeartypeClawHookException and leave everything unchanged.',
  'note': 'Histories of <= 14 (quick) / 30 (thorough) steps; ~700 quick histories because fork throughput in this sandbox is ~40/s. The history is a Hypothesis-generated '
          'operation list interpreted against the model (equivalent to a rule-based state machine whose rules have no data dependencies); it shrinks as one value.',
 },
 'C08': {
  'technique': 'property-based testing: generated generator / coroutine bodies and protocol-operation sequences, differential against the undecorated function',
  'text': 'Bodies from a statement grammar (yield, x = yield, nested try/except/finally with yielding / returning / re-raising / swallowing handlers, return, raise, '
          'loops, awaiting an awaitable that suspends once) are rendered as generator, async generator or coroutine with and without return annotation; the decorated and '
          'undecorated functions are driven by the same next/send/throw/close (anext/asend/athrow/aclose) sequence with a loop-free stepper and must produce identical traces, '
          'side-effect logs and inspect classification; violating coroutine returns must raise the return violation.',
  'note': 'Sequences of <= 8 operations, bodies of depth <= 2; GC finalisation of un-closed async generators is not driven. Bodies that yield while handling GeneratorExit are excluded as the statement says.',
 },
 'C09': {
  'technique': 'property-based testing: metamorphic size sweep over instrumented containers, bound computed from the hint',
  'text': 'For generated container hints and object shapes built from read-counting list/tuple/set/deque/dict subclasses and ABC-only containers, the same case is run at '
          'sizes 1,2,3,10,1000,20000 (100000 thorough): item reads and repr() calls on the checked object must be identical at every size (per verdict), at most one read per '
          'container level (two per mapping level) while deciding and twice that when a rejection is described, and non-collection iterables must never be iterated.',
  'note': 'Size independence is established on the sweep, not for every size. Reads are counted through overridden __getitem__ / iterators / views of the spy classes; C-level reads of builtin containers that bypass them (e.g. inside repr) are invisible.',
 },
 'C10': {
  'technique': 'property-based testing: spy objects logging every method call, before/after snapshot invariant over the six entry points',
  'text': 'Hints of the iterable/collection/mapping families (optionally wrapped) are checked against one-shot iterators, generators, non-collection iterables, '
          'defaultdicts with a counting factory, ChainMaps and method-logging containers chosen independently of the hint; after each entry point no mutator may have run, '
          'no iterator advanced, no default_factory call made, contents and identity unchanged, and every logged method must be in the read-only allow-list.',
  'note': 'Bounded exploration; containers of 0-5 items. A ChainMap whose first map is a defaultdict is not generated (ChainMap.__getitem__ itself inserts there).',
 },
 'C11': {
  'technique': 'property-based testing / grammar fuzzing of hint-construction programs with a validity oracle on escaping exceptions, bucketed by (phase, class, innermost beartype frame) + coverage-guided fuzzing (atheris/libFuzzer over the same strategy and oracle, thorough tier)',
  'text': 'Arbitrary objects are built as hints by generated programs (typing factories over junk leaves, wrong arity, special forms, deep nesting) and passed to @beartype '
          '(decoration and call, parameter and return), is_bearable, die_if_unbearable, TypeHint and is_subhint (both sides); anything that escapes must be a public '
          'BeartypeException of the right phase class and every warning a BeartypeWarning. User exceptions raised by wrapped bodies, Is[...] predicates and __instancecheck__ '
          'hooks must come back as the identical object.',
  'note': 'Hypothesis shards in both tiers; the thorough tier adds 8 libFuzzer campaigns of 600 s through fuzz_one_input with beartype instrumented for coverage; failures raised by typing itself while building a hint are discarded.',
 },
 'C13': {
  'technique': 'property-based testing: generated class sources, differential between @beartype on the class and a hand-written per-member rewriter',
  'text': 'Class sources (plain/class/static methods, read-only and read-write properties, unannotated, @no_type_check and pre-wrapped members, nested classes, inheritance, '
          'dataclasses) are executed twice; one copy is decorated as a class, the other member by member by my own rewriter. Probe verdicts must agree call for call, and '
          'identity of the class, descriptor kinds, __name__/__qualname__/__doc__/signature/__wrapped__, untouched inherited members, idempotence and the O0 / -O identities are asserted.',
  'note': 'Bounded exploration (<= 5 members per class, 2 nesting levels). Idempotence is judged on the function objects inside descriptors (beartype rebuilds descriptor objects).',
 },
 'C07': {
  'technique': 'property-based testing: generated modules, differential between string / postponed annotations and eagerly evaluated ones',
  'text': 'A module is generated per case (hint wrapper x placement x spelling x definition order) and executed under a registered module name; for every probe '
          'object the string-literal and from-__future__ variants must give the verdict and violation class of the variant with evaluated annotations, at module level, '
          'in methods of classes nested 0-2 deep (self reference, shadowing class-level alias, sibling class of the nested body) and in closures 1-2 deep; a call '
          'before the referenced class exists must raise a beartype forward-reference exception and the same wrapper must work once it is defined.',
  'note': 'Finite product space sampled by Hypothesis (12 placements x 11 wrappers x 3 orders x 2 spellings); only names Python itself resolves for evaluated annotations are generated.',
 },
 'C14': {
  'technique': 'property-based testing over histories: forked pristine process per history, differential against a history-free sibling fork',
  'text': 'Histories of public operations (checks, subhint queries, TypeHint comparisons, decorate-and-call, gc, cache clearing, forward references defined later, '
          '(re)definition of same-named classes incl. hot-reload chains of decorated generations) over look-alike hints (Literal[1]/[True], 1/True/1.0 metadata, '
          'unhashable Annotated, same-named classes) are followed by a final query whose answer must equal the answer of the same query in a fresh process and be idempotent.',
  'note': '~360 histories in the quick tier (two forks each; fork throughput of the sandbox is the limit); answers compared as verdict / exception class.',
 },
 'C15': {
  'technique': 'schedule fuzzing with a controlled scheduler: sys.settrace yield points + cooperative locks, Hypothesis-generated schedules, one-preemption line sweeps and sync-point sweeps (preempt after every return from cache / pool / registry code and after every lock release), sequential-order oracle',
  'text': '2-3 threads of public operations run under a scheduler that owns every context switch (line events inside beartype are yield points; beartype\'s locks '
          'are cooperative wrappers installed before beartype is imported, so blocking yields to the scheduler and all-blocked is reported as deadlock). Schedules are '
          'lists of run lengths drawn by Hypothesis, one-preemption sweeps over the first thread, or sweeps over its sync points (returns from cache / pool / lock / registry '
          'modules and lock releases, calibrated on a warm run); each run uses fresh keys so that it exercises first-time cache paths. Results - including the final state of '
          'the hook registry - must match a sequential order, singletons must be shared across threads, and no exception or deadlock may occur.',
  'note': 'Bounded schedule space (<= 6 preemptions, line granularity; opcode-level tracing crashes CPython 3.12.1 and is off). ~80 cases x 4-40 schedules quick. '
          'Scheduler timeouts and child crashes are counted as inconclusive, never as violations.',
 },
 'C05': {
  'technique': 'grammar-based program generation: structural oracle on the transformed AST + behavioural differential hooked vs hand-rewritten vs untouched source',
  'text': 'Module sources are generated from a statement grammar (docstring, __future__ imports, nested def / async def / class, decorator stacks, control flow incl. '
          'match, annotated assignments to names / attributes / subscripts, traced sub-expressions, unsupported hints) for all settings of claw_is_pep526, decorator '
          'placement and default / non-default configuration. The transformed AST must compile and, once the injected import, decorators and check statements have been '
          'validated against an independent re-statement of the rule and stripped, dump identically to the original including positions. For every third case the module '
          'is imported hooked, hand-rewritten (my own source rewriter) and untouched in forked children: evaluation trace, first exception (class and original line), '
          'decoration warnings and probe verdicts are compared.',
  'note': 'Bounded exploration (depth <= 3, <= 4 statements per block). The transformer is reached through BeartypeNodeTransformer exactly as the loader calls it, and '
          'through the real beartype_package hook for the behavioural part.',
 },
 'C16': {
  'technique': 'property-based testing over process histories (fresh interpreters, differential against an empty cache + .pyc file invariant) and controlled-scheduler concurrent imports',
  'text': 'A scratch package is imported by 2-5 fresh interpreters in sequence, each with its own hook setting, with source edits in between; the fingerprint of the last '
          'run must equal the one obtained after deleting every __pycache__, and after every run each .pyc must reference beartype\'s injected names iff its name '
          'carries the beartype marker. A second family imports a hooked and an unhooked module from two threads under the controlled scheduler (every line inside '
          'beartype is a yield point) and checks the same file invariant.',
  'note': '~100 histories / schedules in the quick tier (each history costs 3-6 interpreter start-ups). Scratch trees live under $TMPDIR and are removed after each case.',
 },
}
