"""Hint grammar with an independent reference semantics, value ASTs and
generators (shared by C01-C03, C07, C09, C10, C18-C20).

A *hint node* and a *value AST* are plain JSON (lists / strings / numbers) so
that every generated case can be written to a replay file and re-executed
without Hypothesis or pickling.

Reference verdict (three valued), written from the PEPs and beartype's
documented semantics, never from beartype's code:

* conforms(node, x)     x is in [[H]] at full depth            -> must be accepted
* must_reject(node, x)  the violation lies where no sampling is involved, or
                        every item of a checked container violates -> must be rejected
* otherwise             verdict may legitimately depend on the sampler draw
"""
import collections
import collections.abc as cabc
import enum
import functools
import operator
import types
import typing
from typing import (Annotated, Any, Generic, Literal, NewType, Optional, Protocol, TypeVar, Union,
                    runtime_checkable)

from hypothesis import strategies as st

# --------------------------------------------------------------------------
# Harness classes: module-level singletons with unique qualified names (beartype
# coerces hints through a repr-keyed cache; see DESIGN.md C14).


class VBase:
    def __repr__(self):
        return 'VBase()'

    def __hash__(self):
        return 101   # deterministic: set order must not depend on id()


class VDerived(VBase):
    def __repr__(self):
        return 'VDerived()'

    def __hash__(self):
        return 102


class VOther:
    def __repr__(self):
        return 'VOther()'

    def __hash__(self):
        return 103   # deterministic: set order must not depend on id()


class VAlien:
    """Instances match nothing but object / Any / unbound type variables."""

    def __repr__(self):
        return 'VAlien()'

    def __hash__(self):
        return 107   # deterministic: set order must not depend on id()


def _twin(bases, ns=None):
    """Two unrelated classes with the *same* module and qualified name (and hence the same repr).  They are only
    used by the checks that probe name-keyed caches on purpose (C14, C19) and never by the shared grammar."""
    d = {'__module__': __name__, '__qualname__': 'VTwin', '__hash__': lambda self: 131,
         '__repr__': lambda self: 'VTwin()'}
    d.update(ns or {})
    return type('VTwin', bases, d)


VTwinA = _twin((), {'twin_side': 'A'})
VTwinB = _twin((), {'twin_side': 'B'})


class VColor(enum.Enum):
    RED = 1
    GREEN = 2


VT = TypeVar('VT')
VTB = TypeVar('VTB', bound=VBase)
VTC = TypeVar('VTC', int, str)
VNTInt = NewType('VNTInt', int)
VNTBase = NewType('VNTBase', VBase)
VNTIntList = NewType('VNTIntList', list[int])        # supertype not a class
VNTDerived = NewType('VNTDerived', VNTInt)           # new type derived from a new type
VNTBool = NewType('VNTBool', bool)                   # supertype not subclassable
VNTFloat = NewType('VNTFloat', float)                # reached by the numeric tower / overrides only through the new type


@runtime_checkable
class VSupportsFoo(Protocol):
    def foo(self) -> int: ...


class VFooImpl:
    def foo(self):
        return 1

    def __repr__(self):
        return 'VFooImpl()'

    def __hash__(self):
        return 109   # deterministic: set order must not depend on id()


class VMyList(list[VT]):
    pass


class VRow(tuple[VT, VMyList[str]]):
    """User generic whose pseudo-superclass holds another user generic subscribed concretely over the *same* TypeVar object:
    VRow[int] is a (int, VMyList[str]) pair - the inner mapping VT -> str must not be replaced by the outer VT -> int."""

    def __hash__(self):
        return 127


class VBox(Generic[VT]):
    def __repr__(self):
        return 'VBox()'

    def __hash__(self):
        return 113   # deterministic: set order must not depend on id()


class VUserSeq(cabc.Sequence):
    """User-defined Sequence via the ABC."""

    def __init__(self, items):
        self._items = list(items)

    def __getitem__(self, i):
        return self._items[i]

    def __len__(self):
        return len(self._items)

    def __repr__(self):
        return 'VUserSeq(%r)' % (self._items,)


class VUserMap(cabc.Mapping):
    def __init__(self, pairs):
        self._d = dict(pairs)

    def __getitem__(self, k):
        return self._d[k]

    def __iter__(self):
        return iter(self._d)

    def __len__(self):
        return len(self._d)

    def __repr__(self):
        return 'VUserMap(%r)' % (self._d,)


class VUserSet(cabc.Set):
    def __init__(self, items):
        self._s = list(dict.fromkeys(items))

    def __contains__(self, x):
        return x in self._s

    def __iter__(self):
        return iter(self._s)

    def __len__(self):
        return len(self._s)

    def __repr__(self):
        return 'VUserSet(%r)' % (self._s,)


def _a_function(x: int) -> str:
    return str(x)


CLASSES = {
    'int': int, 'str': str, 'bytes': bytes, 'float': float, 'bool': bool, 'complex': complex,
    'VBase': VBase, 'VDerived': VDerived, 'VOther': VOther, 'VAlien': VAlien, 'VColor': VColor,
    'list': list, 'dict': dict, 'tuple': tuple, 'set': set, 'frozenset': frozenset,
    'object': object, 'VFooImpl': VFooImpl, 'VMyList': VMyList, 'VBox': VBox,
    'VTwinA': VTwinA, 'VTwinB': VTwinB,
}
LEAF_CLASSES = ['int', 'str', 'bytes', 'float', 'bool', 'complex', 'VBase', 'VDerived', 'VOther']
TYPEVARS = {'VT': VT, 'VTB': VTB, 'VTC': VTC}
NEWTYPES = {'VNTInt': (VNTInt, ['cls', 'int']), 'VNTBase': (VNTBase, ['cls', 'VBase']),
            'VNTIntList': (VNTIntList, ['seq', 'list', ['cls', 'int']]), 'VNTDerived': (VNTDerived, ['nt', 'VNTInt']),
            'VNTBool': (VNTBool, ['cls', 'bool']), 'VNTFloat': (VNTFloat, ['cls', 'float'])}
PROTOS = {'VSupportsFoo': VSupportsFoo, 'SupportsInt': typing.SupportsInt}
# PEP 695 type aliases (what "type ANumber = int | float | complex" creates) -> (alias object, the node it stands for)
ALIASES = {
    'ANumber': (typing.TypeAliasType('ANumber', int | float | complex),
                ['union', [['cls', 'int'], ['cls', 'float'], ['cls', 'complex']], 'P']),
    'AWide': (typing.TypeAliasType('AWide', typing.Union[int, str, bytes, VBase, None]),
              ['union', [['cls', 'int'], ['cls', 'str'], ['cls', 'bytes'], ['cls', 'VBase'], ['none']], 'U']),
    'AOptBase': (typing.TypeAliasType('AOptBase', typing.Optional[VBase]), ['union', [['cls', 'VBase']], 'O']),
    'AIntList': (typing.TypeAliasType('AIntList', list[int]), ['seq', 'list', ['cls', 'int']]),
    'AStr': (typing.TypeAliasType('AStr', str), ['cls', 'str']),
    'AFloatStr': (typing.TypeAliasType('AFloatStr', float | str), ['union', [['cls', 'float'], ['cls', 'str']], 'P']),
    'ABytes': (typing.TypeAliasType('ABytes', bytes), ['cls', 'bytes']),
}

# family name -> (hint factory, origin class for isinstance)
SEQ_FAMS = {
    'list': (list, list), 'List': (typing.List, list),
    'Sequence': (cabc.Sequence, cabc.Sequence), 'TSequence': (typing.Sequence, cabc.Sequence),
    'MutableSequence': (cabc.MutableSequence, cabc.MutableSequence),
    'TMutableSequence': (typing.MutableSequence, cabc.MutableSequence),
}
REIT_FAMS = {
    'set': (set, set), 'Set': (typing.Set, set),
    'frozenset': (frozenset, frozenset), 'FrozenSet': (typing.FrozenSet, frozenset),
    'AbstractSet': (cabc.Set, cabc.Set), 'TAbstractSet': (typing.AbstractSet, cabc.Set),
    'MutableSet': (cabc.MutableSet, cabc.MutableSet),
    'Collection': (cabc.Collection, cabc.Collection), 'TCollection': (typing.Collection, cabc.Collection),
    'KeysView': (cabc.KeysView, cabc.KeysView), 'ValuesView': (cabc.ValuesView, cabc.ValuesView),
    'deque': (collections.deque, collections.deque), 'Deque': (typing.Deque, collections.deque),
}
QUASI_FAMS = {
    'Iterable': (cabc.Iterable, cabc.Iterable), 'TIterable': (typing.Iterable, cabc.Iterable),
    'Container': (cabc.Container, cabc.Container), 'Reversible': (cabc.Reversible, cabc.Reversible),
}
MAP_FAMS = {
    'dict': (dict, dict), 'Dict': (typing.Dict, dict),
    'Mapping': (cabc.Mapping, cabc.Mapping), 'TMapping': (typing.Mapping, cabc.Mapping),
    'MutableMapping': (cabc.MutableMapping, cabc.MutableMapping),
    'OrderedDict': (collections.OrderedDict, collections.OrderedDict),
    'defaultdict': (collections.defaultdict, collections.defaultdict),
    'DefaultDict': (typing.DefaultDict, collections.defaultdict),
    'ChainMap': (collections.ChainMap, collections.ChainMap),
}
SHALLOW = {
    'Iterator[int]': (cabc.Iterator[int], cabc.Iterator),
    'Generator[int,None,None]': (cabc.Generator[int, None, None], cabc.Generator),
    'Callable[[int],str]': (cabc.Callable[[int], str], cabc.Callable),
    'Callable[...,Any]': (typing.Callable[..., Any], cabc.Callable),
    'Callable[...,object]': (typing.Callable[..., object], cabc.Callable),
    'Callable': (cabc.Callable, cabc.Callable),
    'Callable[[],int]': (cabc.Callable[[], int], cabc.Callable),
    'Callable[...,int]': (typing.Callable[..., int], cabc.Callable),
    'Callable[[int,str],bool]': (typing.Callable[[int, str], bool], cabc.Callable),
    'Callable[[VBase],VDerived]': (cabc.Callable[[VBase], VDerived], cabc.Callable),
    'Callable[[VDerived],VBase]': (typing.Callable[[VDerived], VBase], cabc.Callable),
    'Callable[...,VBase]': (cabc.Callable[..., VBase], cabc.Callable),
    'Hashable': (cabc.Hashable, cabc.Hashable),
    'Sized': (cabc.Sized, cabc.Sized),
    'ItemsView[str,int]': (cabc.ItemsView[str, int], cabc.ItemsView),
    'VBox[int]': (VBox[int], VBox),
    'VRow[int]': (VRow[int], VRow),
    'VRow[bytes]': (VRow[bytes], VRow),
}
_ROW_FIRST = {'VRow[int]': int, 'VRow[bytes]': bytes}

# validators usable inside Annotated (named, total predicates)
PREDICATES = {
    'truthy': lambda x: bool(x),
    'falsy': lambda x: not x,
    'short_repr': lambda x: len(repr(x)) < 40,
    'always': lambda x: True,
    'never': lambda x: False,
}
# the lambdas above are wrapped into named functions so that beartype can find a name/source


def _mk_pred(name, fn):
    def pred(x):
        try:
            return bool(fn(x))
        except Exception:
            return False
    pred.__name__ = pred.__qualname__ = 'vpred_' + name
    return pred


PRED_FUNCS = {k: _mk_pred(k, v) for k, v in PREDICATES.items()}
_VALIDATOR_CACHE = {}


def vpred_partial_positive(x):
    """Deliberately partial: raises TypeError for anything that does not compare with 0 (str, None, list, ...).  Only ever used
    behind a guard that short-circuits it away for such objects."""
    return x > 0


def vpred_is_empty(x):
    return len(x) == 0


def vpred_partial_first_truthy(x):
    """Deliberately partial: IndexError / TypeError / KeyError for empty or unsubscriptable objects."""
    return bool(x[0])


def _validator(v):
    """['is', name] | ['isinst', clsname] | ['iseq', litval] | ['inert', text] -> metadata object"""
    key = repr(v)
    if key not in _VALIDATOR_CACHE:
        from beartype.vale import Is, IsEqual, IsInstance
        if v[0] == 'is':
            obj = Is[PRED_FUNCS[v[1]]]
        elif v[0] == 'isinst':
            obj = IsInstance[CLASSES[v[1]]]
        elif v[0] == 'iseq':
            obj = IsEqual[lit_value(v[1])]
        elif v[0] == 'inert':
            obj = v[1]
        elif v[0] == 'guard':
            # guard-style validators: a disjunction whose second operand is partial and is short-circuited away by the first
            # for every object it would raise on, nested below a conjunction / negation (v[1] selects the shape, v[2] a total
            # predicate): the whole validator is total under short-circuit evaluation
            from beartype.vale import IsInstance as _II
            c = Is[PRED_FUNCS[v[2]]]
            if v[1] == 'or-and':
                obj = (~_II[int] | Is[vpred_partial_positive]) & c
            elif v[1] == 'not-or':
                obj = ~(~_II[int] | Is[vpred_partial_positive])
            elif v[1] == 'seq-or-and':
                obj = (~_II[list] | Is[vpred_is_empty] | Is[vpred_partial_first_truthy]) & c
            else:
                raise ValueError(v)
        else:
            raise ValueError(v)
        _VALIDATOR_CACHE[key] = obj
    return _VALIDATOR_CACHE[key]


def validator_holds(v, x):
    if v[0] == 'is':
        return PRED_FUNCS[v[1]](x)
    if v[0] == 'isinst':
        return isinstance(x, CLASSES[v[1]])
    if v[0] == 'iseq':
        try:
            return bool(x == lit_value(v[1]))
        except Exception:
            return False
    if v[0] == 'guard':
        if v[1] == 'or-and':
            return ((not isinstance(x, int)) or x > 0) and PRED_FUNCS[v[2]](x)
        if v[1] == 'not-or':
            return not ((not isinstance(x, int)) or x > 0)
        if v[1] == 'seq-or-and':
            return ((not isinstance(x, list)) or len(x) == 0 or bool(x[0])) and PRED_FUNCS[v[2]](x)
    return True  # inert metadata


def lit_value(lv):
    k = lv[0]
    if k == 'i':
        return int(lv[1])
    if k == 's':
        return lv[1]
    if k == 'by':
        return lv[1].encode('latin1')
    if k == 'b':
        return bool(lv[1])
    if k == 'n':
        return None
    if k == 'e':
        return VColor[lv[1]]
    raise ValueError(lv)


# --------------------------------------------------------------------------
# build(node) -> real hint object

def build(node):
    k = node[0]
    if k == 'cls':
        return CLASSES[node[1]]
    if k == 'none':
        return None
    if k == 'any':
        return Any if node[1] == 'Any' else object
    if k == 'lit':
        return Literal[tuple(lit_value(v) for v in node[1])]
    if k == 'union':
        members = [build(m) for m in node[1]]
        style = node[2]
        if style == 'O':
            inner = members[0] if len(members) == 1 else Union[tuple(members)]
            return Optional[inner]
        if style == 'P':
            try:
                return functools.reduce(operator.or_, members)
            except TypeError:
                pass
        return Union[tuple(members)]
    if k == 'tupf':
        members = tuple(build(m) for m in node[1])
        if node[2] in ('u', 'v') and len(members) >= 2:
            # PEP 646: the same fixed-length tuple spelled with an unpacked fixed tuple in front ('u') or at the end ('v')
            if node[2] == 'u':
                return tuple[(typing.Unpack[tuple[members[:-1]]], members[-1])]
            return tuple[(members[0], typing.Unpack[tuple[members[1:]]])]
        fac = typing.Tuple if node[2] == 'T' else tuple
        return fac[members] if members else fac[()]
    if k == 'tupv':
        fac = typing.Tuple if node[2] == 'T' else tuple
        return fac[build(node[1]), ...]
    if k == 'seq':
        return SEQ_FAMS[node[1]][0][build(node[2])]
    if k == 'reit':
        return REIT_FAMS[node[1]][0][build(node[2])]
    if k == 'quasi':
        return QUASI_FAMS[node[1]][0][build(node[2])]
    if k == 'map':
        return MAP_FAMS[node[1]][0][build(node[2]), build(node[3])]
    if k == 'counter':
        return (typing.Counter if node[2] == 'T' else collections.Counter)[build(node[1])]
    if k == 'shallow':
        return SHALLOW[node[1]][0]
    if k == 'type':
        if node[1] is None:
            return type if node[2] == 'bare' else typing.Type[Any]
        return (typing.Type if node[2] == 'T' else type)[build(node[1])]
    if k == 'tv':
        return TYPEVARS[node[1]]
    if k == 'nt':
        return NEWTYPES[node[1]][0]
    if k == 'alias':
        return ALIASES[node[1]][0]
    if k == 'ann':
        return Annotated[(build(node[1]),) + tuple(_validator(v) for v in node[2])]
    if k == 'proto':
        return PROTOS[node[1]]
    if k == 'mylist':
        return VMyList if node[1] is None else VMyList[build(node[1])]
    raise ValueError('unknown node %r' % (node,))


# --------------------------------------------------------------------------
# reference semantics on real objects

def _items(x):
    """Items a full-depth reading of a single-argument container hint constrains."""
    return list(x)


def _is_type_member(node, x):
    """x is a class satisfying type[node]."""
    if not isinstance(x, type):
        return False
    if node is None:
        return True
    k = node[0]
    if k == 'any':
        return True
    if k == 'cls':
        return issubclass(x, CLASSES[node[1]])
    if k == 'union':
        return any(_is_type_member(m, x) for m in node[1])
    if k == 'tv':
        if node[1] == 'VT':
            return True
        if node[1] == 'VTB':
            return issubclass(x, VBase)
        return issubclass(x, (int, str))
    raise ValueError(node)


def conforms(node, x):
    k = node[0]
    if k == 'cls':
        return isinstance(x, CLASSES[node[1]])
    if k == 'none':
        return x is None
    if k == 'any':
        return True
    if k == 'lit':
        return any(type(x) is type(v) and x == v for v in (lit_value(l) for l in node[1]))
    if k == 'union':
        return any(conforms(m, x) for m in node[1]) or (node[2] == 'O' and x is None)
    if k == 'tupf':
        return (isinstance(x, tuple) and len(x) == len(node[1]) and
                all(conforms(m, i) for m, i in zip(node[1], x)))
    if k == 'tupv':
        return isinstance(x, tuple) and all(conforms(node[1], i) for i in x)
    if k == 'seq':
        return isinstance(x, SEQ_FAMS[node[1]][1]) and all(conforms(node[2], i) for i in _items(x))
    if k == 'reit':
        return isinstance(x, REIT_FAMS[node[1]][1]) and all(conforms(node[2], i) for i in _items(x))
    if k == 'quasi':
        if not isinstance(x, QUASI_FAMS[node[1]][1]):
            return False
        if isinstance(x, cabc.Collection):
            return all(conforms(node[2], i) for i in _items(x))
        return True  # one-shot iterables cannot be inspected without consuming them
    if k == 'map':
        return (isinstance(x, MAP_FAMS[node[1]][1]) and
                all(conforms(node[2], kk) and conforms(node[3], vv) for kk, vv in x.items()))
    if k == 'counter':
        return (isinstance(x, collections.Counter) and
                all(conforms(node[1], kk) and isinstance(vv, int) for kk, vv in x.items()))
    if k == 'shallow':
        if node[1] in _ROW_FIRST:
            return (isinstance(x, VRow) and len(x) == 2 and isinstance(x[0], _ROW_FIRST[node[1]]) and isinstance(x[1], VMyList)
                    and all(isinstance(i, str) for i in x[1]))
        return isinstance(x, SHALLOW[node[1]][1])
    if k == 'type':
        return _is_type_member(node[1], x)
    if k == 'tv':
        if node[1] == 'VT':
            return True
        if node[1] == 'VTB':
            return isinstance(x, VBase)
        return isinstance(x, (int, str))
    if k == 'nt':
        return conforms(NEWTYPES[node[1]][1], x)
    if k == 'alias':
        return conforms(ALIASES[node[1]][1], x)
    if k == 'ann':
        return conforms(node[1], x) and all(validator_holds(v, x) for v in node[2])
    if k == 'proto':
        return isinstance(x, PROTOS[node[1]])
    if k == 'mylist':
        return isinstance(x, VMyList) and (node[1] is None or all(conforms(node[1], i) for i in x))
    raise ValueError(node)


def _all_items_reject(child, items):
    return len(items) > 0 and all(must_reject(child, i) for i in items)


def must_reject(node, x):
    k = node[0]
    if k == 'shallow' and node[1] in _ROW_FIRST:
        # both positions of the pair are always inspected; the items of the inner list are sampled
        return not (isinstance(x, VRow) and len(x) == 2 and isinstance(x[0], _ROW_FIRST[node[1]]) and isinstance(x[1], VMyList)
                    and not (x[1] and all(not isinstance(i, str) for i in x[1])))
    if k in ('cls', 'none', 'shallow', 'type', 'proto'):
        return not conforms(node, x)
    if k == 'any':
        return False
    if k == 'lit':
        vals = [lit_value(l) for l in node[1]]
        types_ = tuple({type(v) for v in vals})
        try:
            eq_any = any(x == v for v in vals)
        except Exception:
            eq_any = False
        return (not isinstance(x, types_)) or not eq_any
    if k == 'union':
        if node[2] == 'O' and x is None:
            return False
        return all(must_reject(m, x) for m in node[1])
    if k == 'tupf':
        if not isinstance(x, tuple) or len(x) != len(node[1]):
            return True
        return any(must_reject(m, i) for m, i in zip(node[1], x))
    if k == 'tupv':
        return (not isinstance(x, tuple)) or _all_items_reject(node[1], list(x))
    if k == 'seq':
        return (not isinstance(x, SEQ_FAMS[node[1]][1])) or _all_items_reject(node[2], _items(x))
    if k == 'reit':
        return (not isinstance(x, REIT_FAMS[node[1]][1])) or _all_items_reject(node[2], _items(x))
    if k == 'quasi':
        if not isinstance(x, QUASI_FAMS[node[1]][1]):
            return True
        if isinstance(x, cabc.Collection):
            return _all_items_reject(node[2], _items(x))
        return False
    if k == 'map':
        if not isinstance(x, MAP_FAMS[node[1]][1]):
            return True
        pairs = list(x.items())
        return len(pairs) > 0 and all(must_reject(node[2], kk) or must_reject(node[3], vv) for kk, vv in pairs)
    if k == 'counter':
        if not isinstance(x, collections.Counter):
            return True
        pairs = list(x.items())
        return len(pairs) > 0 and all(must_reject(node[1], kk) or not isinstance(vv, int) for kk, vv in pairs)
    if k == 'tv':
        if node[1] == 'VT':
            return False
        if node[1] == 'VTB':
            return not isinstance(x, VBase)
        return not isinstance(x, (int, str))
    if k == 'nt':
        return must_reject(NEWTYPES[node[1]][1], x)
    if k == 'alias':
        return must_reject(ALIASES[node[1]][1], x)
    if k == 'ann':
        return must_reject(node[1], x) or not all(validator_holds(v, x) for v in node[2])
    if k == 'mylist':
        return (not isinstance(x, VMyList)) or (node[1] is not None and _all_items_reject(node[1], list(x)))
    raise ValueError(node)


# --------------------------------------------------------------------------
# value ASTs

def _mk_gen(items):
    def g():
        for i in items:
            yield i
    return g()


def realize(v):
    k = v[0]
    if k == 'i':
        return int(v[1])
    if k == 's':
        return v[1]
    if k == 'by':
        return v[1].encode('latin1')
    if k == 'f':
        return float(v[1])
    if k == 'b':
        return bool(v[1])
    if k == 'c':
        return complex(v[1][0], v[1][1])
    if k == 'n':
        return None
    if k == 'obj':
        return CLASSES[v[1]]()
    if k == 'enum':
        return VColor[v[1]]
    if k == 'class':
        return CLASSES[v[1]]
    if k == 'func':
        return _a_function
    if k == 'range':
        return range(int(v[1]))
    if k == 'row':
        return VRow((realize(v[1]), VMyList([realize(i) for i in v[2]])))
    items = None
    if k in ('list', 'tuple', 'set', 'fset', 'deque', 'mylist', 'userseq', 'userset', 'iter', 'gen'):
        items = [realize(i) for i in v[1]]
        if k == 'list':
            return items
        if k == 'tuple':
            return tuple(items)
        if k == 'set':
            return set(items)
        if k == 'fset':
            return frozenset(items)
        if k == 'deque':
            return collections.deque(items)
        if k == 'mylist':
            return VMyList(items)
        if k == 'userseq':
            return VUserSeq(items)
        if k == 'userset':
            return VUserSet(items)
        if k == 'iter':
            return iter(items)
        if k == 'gen':
            return _mk_gen(items)
    if k in ('dict', 'odict', 'ddict', 'chainmap', 'usermap', 'keys', 'values', 'items', 'mproxy'):
        pairs = [(realize(a), realize(b)) for a, b in v[1]]
        d = dict(pairs)
        if k == 'dict':
            return d
        if k == 'odict':
            return collections.OrderedDict(pairs)
        if k == 'ddict':
            dd = collections.defaultdict(lambda: None)
            dd.update(d)
            return dd
        if k == 'chainmap':
            half = len(pairs) // 2
            return collections.ChainMap(dict(pairs[:half]), dict(pairs[half:]))
        if k == 'usermap':
            return VUserMap(pairs)
        if k == 'mproxy':
            return types.MappingProxyType(d)
        if k == 'keys':
            return d.keys()
        if k == 'values':
            return d.values()
        if k == 'items':
            return d.items()
    if k == 'counter':
        c = collections.Counter()
        for a, n in v[1]:
            c[realize(a)] = n if isinstance(n, (float, str)) else int(n)    # a non-int count violates the implicit value hint
        return c
    raise ValueError('unknown value AST %r' % (v,))


def value_hashable(v):
    k = v[0]
    if k in ('i', 's', 'by', 'f', 'b', 'c', 'n', 'obj', 'enum', 'class', 'func', 'range'):
        return True
    if k in ('tuple', 'fset'):
        return all(value_hashable(i) for i in v[1])
    return False


def value_depth(v):
    k = v[0]
    if k in ('list', 'tuple', 'set', 'fset', 'deque', 'mylist', 'userseq', 'userset', 'iter', 'gen'):
        return 1 + max([value_depth(i) for i in v[1]] or [0])
    if k in ('dict', 'odict', 'ddict', 'chainmap', 'usermap', 'keys', 'values', 'items', 'mproxy'):
        return 1 + max([max(value_depth(a), value_depth(b)) for a, b in v[1]] or [0])
    if k == 'counter':
        return 1 + max([value_depth(a) for a, n in v[1]] or [0])
    return 0


# --------------------------------------------------------------------------
# hint strategies

def node_depth(node):
    k = node[0]
    if k in ('union', 'tupf'):
        return 1 + max([node_depth(m) for m in node[1]] or [0])
    if k in ('tupv', 'ann', 'mylist', 'counter'):
        return 1 + (node_depth(node[1]) if node[1] is not None else 0)
    if k in ('seq', 'reit', 'quasi'):
        return 1 + node_depth(node[2])
    if k == 'map':
        return 1 + max(node_depth(node[2]), node_depth(node[3]))
    if k == 'type':
        return 1 if node[1] is not None else 0
    return 0


def node_kinds(node, out=None):
    out = out if out is not None else []
    k = node[0]
    out.append(k if k not in ('seq', 'reit', 'quasi', 'map') else '%s:%s' % (k, node[1]))
    if k in ('union', 'tupf'):
        for m in node[1]:
            node_kinds(m, out)
    elif k in ('tupv', 'ann', 'mylist', 'counter', 'type'):
        if node[1] is not None:
            node_kinds(node[1], out)
    elif k in ('seq', 'reit', 'quasi'):
        node_kinds(node[2], out)
    elif k == 'map':
        node_kinds(node[2], out)
        node_kinds(node[3], out)
    return out


def hashable_node(node):
    """conforming(node, hashable=True) only yields hashable objects."""
    k = node[0]
    if k == 'cls':
        return node[1] not in ('list', 'dict', 'set', 'VMyList')
    if k == 'nt':
        return hashable_node(NEWTYPES[node[1]][1])
    if k in ('none', 'any', 'lit', 'type', 'tv', 'proto'):
        return True
    if k == 'alias':
        return hashable_node(ALIASES[node[1]][1])
    if k in ('union', 'tupf'):
        return all(hashable_node(m) for m in node[1])
    if k in ('tupv', 'ann'):
        return hashable_node(node[1])
    if k == 'reit':
        return node[1] in ('frozenset', 'FrozenSet') and hashable_node(node[2])
    if k == 'shallow':
        return node[1] in ('Hashable', 'VBox[int]') or node[1].startswith('Callable')
    return False


SAMPLED_KINDS = ('seq', 'reit', 'quasi', 'map', 'counter', 'tupv', 'mylist')


def has_sampled_level(node):
    return any(k.split(':')[0] in SAMPLED_KINDS for k in node_kinds(node))


_lit_vals = st.one_of(
    st.integers(-3, 3).map(lambda i: ['i', i]),
    st.sampled_from(['', 'a', 'b', 'xyz']).map(lambda s: ['s', s]),
    st.sampled_from(['', 'a']).map(lambda s: ['by', s]),
    st.booleans().map(lambda b: ['b', b]),
    st.just(['n']),
    st.sampled_from(['RED', 'GREEN']).map(lambda e: ['e', e]),
)


def _leaf(hashable):
    opts = [
        st.sampled_from(LEAF_CLASSES).map(lambda c: ['cls', c]),
        st.sampled_from(LEAF_CLASSES).map(lambda c: ['cls', c]),
        st.just(['none']),
        st.sampled_from(['Any', 'object']).map(lambda a: ['any', a]),
        st.lists(_lit_vals, min_size=1, max_size=3, unique_by=repr).map(lambda l: ['lit', l]),
        # members that are equal but of different types (True == 1, False == 0): distinct members of one Literal, in both orders
        st.sampled_from([[['b', True], ['i', 1]], [['b', False], ['i', 0]], [['i', 1], ['b', True]], [['i', 0], ['b', False]],
                         [['b', True], ['i', 1], ['s', 'a']], [['n'], ['b', False], ['i', 0]]]).map(lambda l: ['lit', l]),
        st.sampled_from(sorted(TYPEVARS)).map(lambda t: ['tv', t]),
        st.sampled_from(sorted(n for n in NEWTYPES if not hashable or n != 'VNTIntList')).map(lambda t: ['nt', t]),
        st.sampled_from(sorted(a for a in ALIASES if not hashable or a != 'AIntList')).map(lambda t: ['alias', t]),
        st.sampled_from(sorted(PROTOS)).map(lambda t: ['proto', t]),
        st.sampled_from([[None, 'bare'], [None, 'TAny'], [['cls', 'int'], 'T'], [['cls', 'int'], 't'],
                         [['cls', 'str'], 't'], [['cls', 'VBase'], 'T'], [['cls', 'VBase'], 't'],
                         [['cls', 'VDerived'], 't'], [['any', 'Any'], 't'],
                         [['union', [['cls', 'int'], ['cls', 'VBase']], 'U'], 't'],
                         [['union', [['cls', 'int'], ['cls', 'VBase']], 'U'], 'T']]).map(
            lambda t: ['type', t[0], t[1]]),
    ]
    if not hashable:
        opts += [
            st.sampled_from(sorted(SHALLOW)).map(lambda s: ['shallow', s]),
            st.sampled_from(['list', 'dict', 'set']).map(lambda c: ['cls', c]),
        ]
    else:
        opts += [st.sampled_from(['tuple', 'frozenset']).map(lambda c: ['cls', c])]
    return st.one_of(opts)


_bear_validators = st.one_of(
    st.sampled_from(['truthy', 'short_repr', 'always', 'falsy']).map(lambda p: ['is', p]),
    st.sampled_from(['int', 'str', 'VBase', 'object']).map(lambda c: ['isinst', c]),
    st.tuples(st.sampled_from(['or-and', 'not-or', 'seq-or-and']), st.sampled_from(['truthy', 'short_repr', 'always', 'falsy', 'never'])).map(
        lambda t: ['guard', t[0], t[1]]),
)
# beartype documents that one Annotated must not mix its validators with foreign metadata
_validator_lists = st.one_of(
    st.lists(_bear_validators, min_size=1, max_size=3),
    st.lists(st.sampled_from(['x', 'meta']).map(lambda s: ['inert', s]), min_size=1, max_size=2),
)


def hint_nodes(max_depth=3, hashable=False):
    """Strategy of hint nodes; ``hashable`` = members must be constructible as hashable objects."""
    if max_depth <= 0:
        return _leaf(hashable)
    sub = st.deferred(lambda: hint_nodes(max_depth - 1, hashable))
    subh = st.deferred(lambda: hint_nodes(max_depth - 1, True))
    suba = st.deferred(lambda: hint_nodes(max_depth - 1, False))
    opts = [
        st.tuples(st.lists(sub, min_size=1, max_size=3), st.sampled_from(['U', 'P', 'O'])).map(
            lambda t: ['union', t[0], t[1]]),
        st.tuples(st.lists(sub, min_size=0, max_size=3), st.sampled_from(['T', 't', 't', 'u', 'v'])).map(
            lambda t: ['tupf', t[0], t[1]]),
        st.tuples(sub, st.sampled_from(['T', 't'])).map(lambda t: ['tupv', t[0], t[1]]),
        st.tuples(sub, _validator_lists).map(lambda t: ['ann', t[0], t[1]]),
        st.tuples(st.sampled_from(['frozenset', 'FrozenSet']), subh).map(lambda t: ['reit', t[0], t[1]]),
    ]
    if not hashable:
        opts += [
            st.tuples(st.sampled_from(sorted(SEQ_FAMS)), suba).map(lambda t: ['seq', t[0], t[1]]),
            st.tuples(st.sampled_from(['set', 'Set', 'AbstractSet', 'TAbstractSet', 'MutableSet', 'KeysView']),
                      subh).map(lambda t: ['reit', t[0], t[1]]),
            st.tuples(st.sampled_from(['Collection', 'TCollection', 'ValuesView', 'deque', 'Deque']),
                      suba).map(lambda t: ['reit', t[0], t[1]]),
            st.tuples(st.sampled_from(sorted(QUASI_FAMS)), suba).map(lambda t: ['quasi', t[0], t[1]]),
            st.tuples(st.sampled_from(sorted(MAP_FAMS)), subh, suba).map(lambda t: ['map', t[0], t[1], t[2]]),
            st.tuples(subh, st.sampled_from(['T', 'c'])).map(lambda t: ['counter', t[0], t[1]]),
            st.tuples(st.integers(0, 3), suba).map(lambda t: ['mylist', t[1] if t[0] else None]),
        ]
    composite = st.one_of(opts)
    leaf = _leaf(hashable)
    # one leaf in five at every level above the bottom (one_of would flatten the leaf alternatives
    # into the composite ones and let them dominate)
    return st.integers(0, 4).flatmap(lambda i: leaf if i == 0 else composite)


# --------------------------------------------------------------------------
# conforming values by construction

_small_text = st.sampled_from(['', 'a', 'b', 'xyz', 'hello', 'é'])
_sizes = st.one_of(st.integers(0, 4), st.integers(0, 4), st.sampled_from([7, 8]))


def _scalar_values():
    return st.one_of(
        st.integers(-5, 5).map(lambda i: ['i', i]), _small_text.map(lambda s: ['s', s]),
        st.just(['n']), st.booleans().map(lambda b: ['b', b]),
        st.sampled_from([0.0, 1.5, -2.25]).map(lambda f: ['f', f]),
        st.sampled_from(['VBase', 'VDerived', 'VOther', 'VAlien', 'VFooImpl']).map(lambda c: ['obj', c]),
        st.sampled_from(['RED', 'GREEN']).map(lambda e: ['enum', e]),
        st.sampled_from(['int', 'str', 'VBase']).map(lambda c: ['class', c]),
    )


@st.composite
def conforming(draw, node, hashable=False, size=None):
    """Value AST of an object that is a member of [[node]] at full depth."""
    k = node[0]
    sizes = _sizes if size is None else size

    def many(child, h=False, n=None):
        n = draw(sizes) if n is None else n
        return [draw(conforming(child, h, size)) for _ in range(n)]

    if k == 'cls':
        c = node[1]
        if c == 'int':
            return draw(st.one_of(st.integers(-5, 5).map(lambda i: ['i', i]), st.integers(-5, 5).map(lambda i: ['i', i]),
                                  st.booleans().map(lambda b: ['b', b])))
        if c == 'str':
            return ['s', draw(_small_text)]
        if c == 'bytes':
            return ['by', draw(st.sampled_from(['', 'a', 'xyz']))]
        if c == 'float':
            return ['f', draw(st.sampled_from([0.0, 1.5, -2.25, 1e10]))]
        if c == 'bool':
            return ['b', draw(st.booleans())]
        if c == 'complex':
            return ['c', [draw(st.sampled_from([0.0, 1.0])), draw(st.sampled_from([0.0, -2.0]))]]
        if c == 'VBase':
            return ['obj', draw(st.sampled_from(['VBase', 'VDerived']))]
        if c in ('VDerived', 'VOther', 'VAlien', 'VFooImpl', 'VTwinA', 'VTwinB'):
            return ['obj', c]
        if c == 'VColor':
            return ['enum', draw(st.sampled_from(['RED', 'GREEN']))]
        if c == 'object':
            return draw(_scalar_values())
        anyh = ['any', 'Any']
        if c == 'list':
            return [draw(st.sampled_from(['list', 'mylist'])), many(anyh)]
        if c == 'tuple':
            return ['tuple', many(anyh, hashable)]
        if c == 'set':
            return ['set', many(anyh, True)]
        if c == 'frozenset':
            return ['fset', many(anyh, True)]
        if c == 'dict':
            return [draw(st.sampled_from(['dict', 'odict', 'ddict'])),
                    [[draw(conforming(anyh, True, size)), draw(conforming(anyh, False, size))] for _ in range(draw(sizes))]]
        raise ValueError(node)
    if k == 'none':
        return ['n']
    if k == 'any':
        if hashable:
            return draw(_scalar_values())
        return draw(st.one_of(_scalar_values(), _scalar_values(),
                              st.lists(_scalar_values(), max_size=3).map(lambda l: ['list', l]),
                              st.just(['dict', []]), st.just(['func'])))
    if k == 'lit':
        lv = draw(st.sampled_from(node[1]))
        return {'i': lambda: ['i', lv[1]], 's': lambda: ['s', lv[1]], 'by': lambda: ['by', lv[1]],
                'b': lambda: ['b', lv[1]], 'n': lambda: ['n'], 'e': lambda: ['enum', lv[1]]}[lv[0]]()
    if k == 'union':
        if node[2] == 'O' and draw(st.integers(0, 3)) == 0:
            return ['n']
        return draw(conforming(draw(st.sampled_from(node[1])), hashable, size))
    if k == 'tupf':
        return ['tuple', [draw(conforming(m, hashable, size)) for m in node[1]]]
    if k == 'tupv':
        return ['tuple', many(node[1], hashable)]
    if k == 'seq':
        fam, child = node[1], node[2]
        origin = SEQ_FAMS[fam][1]
        if origin is list:
            kinds = ['list', 'list', 'mylist']
        elif origin is cabc.MutableSequence:
            kinds = ['list', 'deque', 'mylist']
        else:
            kinds = ['list', 'tuple', 'userseq', 'deque']
            if child == ['cls', 'str']:
                kinds.append('str')
            if child == ['cls', 'int']:
                kinds.append('range')
        kind = draw(st.sampled_from(kinds))
        if kind == 'str':
            return ['s', draw(_small_text)]
        if kind == 'range':
            return ['range', draw(st.integers(0, 8))]
        return [kind, many(child)]
    if k == 'reit':
        fam, child = node[1], node[2]
        origin = REIT_FAMS[fam][1]
        if origin is set or origin is cabc.MutableSet:
            return ['set', many(child, True)]
        if origin is frozenset:
            return ['fset', many(child, True)]
        if origin is cabc.Set:
            kind = draw(st.sampled_from(['set', 'fset', 'keys', 'userset']))
            if kind == 'keys':
                return ['keys', [[i, ['n']] for i in many(child, True)]]
            return [kind, many(child, True)]
        if origin is cabc.KeysView:
            return ['keys', [[i, ['n']] for i in many(child, True)]]
        if origin is cabc.ValuesView:
            return ['values', [[['i', j], i] for j, i in enumerate(many(child))]]
        if origin is collections.deque:
            return ['deque', many(child)]
        # Collection
        kinds = ['list', 'tuple', 'deque', 'values', 'userseq']
        if hashable_node(child):
            kinds += ['set', 'fset', 'dictkeys']
        kind = draw(st.sampled_from(kinds))
        if kind in ('set', 'fset'):
            return [kind, many(child, True)]
        if kind == 'dictkeys':
            return ['dict', [[i, ['n']] for i in many(child, True)]]
        if kind == 'values':
            return ['values', [[['i', j], i] for j, i in enumerate(many(child))]]
        return [kind, many(child)]
    if k == 'quasi':
        fam, child = node[1], node[2]
        origin = QUASI_FAMS[fam][1]
        if origin is cabc.Iterable:
            kinds = ['list', 'tuple', 'set', 'iter', 'gen', 'dictkeys', 'deque']
        elif origin is cabc.Container:
            kinds = ['list', 'tuple', 'set', 'fset', 'dictkeys']
        else:
            kinds = ['list', 'tuple', 'deque', 'dictkeys']
        if not hashable_node(child):
            kinds = [x for x in kinds if x not in ('set', 'fset', 'dictkeys')]
        kind = draw(st.sampled_from(kinds))
        if kind in ('set', 'fset'):
            return [kind, many(child, True)]
        if kind == 'dictkeys':
            return ['dict', [[i, ['n']] for i in many(child, True)]]
        return [kind, many(child)]
    if k in ('map', 'counter'):
        if k == 'counter':
            n = draw(sizes)
            return ['counter', [[draw(conforming(node[1], True, size)), draw(st.integers(-2, 5))] for _ in range(n)]]
        fam = node[1]
        origin = MAP_FAMS[fam][1]
        kinds = {dict: ['dict', 'dict', 'odict', 'ddict'], cabc.Mapping: ['dict', 'chainmap', 'usermap', 'mproxy', 'odict'],
                 cabc.MutableMapping: ['dict', 'chainmap', 'ddict'], collections.OrderedDict: ['odict'],
                 collections.defaultdict: ['ddict'], collections.ChainMap: ['chainmap']}[origin]
        n = draw(sizes)
        return [draw(st.sampled_from(kinds)),
                [[draw(conforming(node[2], True, size)), draw(conforming(node[3], False, size))] for _ in range(n)]]
    if k == 'shallow':
        s = node[1]
        if s.startswith('Iterator'):
            return [draw(st.sampled_from(['iter', 'gen'])), many(['cls', 'int'])]
        if s.startswith('Generator'):
            return ['gen', many(['cls', 'int'])]
        if s.startswith('Callable'):
            return draw(st.sampled_from([['func'], ['class', 'int']]))
        if s == 'Hashable':
            return draw(_scalar_values())
        if s == 'Sized':
            return draw(st.sampled_from([['list', []], ['s', 'ab'], ['dict', []], ['tuple', [['i', 1]]]]))
        if s.startswith('ItemsView'):
            return ['items', [[['s', 'k%d' % j], ['i', j]] for j in range(draw(st.integers(0, 3)))]]
        if s.startswith('VBox'):
            return ['obj', 'VBox']
        if s in _ROW_FIRST:
            first = ['i', draw(st.integers(-3, 3))] if s == 'VRow[int]' else ['by', draw(st.sampled_from(['', 'a', 'xyz']))]
            return ['row', first, [['s', t] for t in draw(st.lists(_small_text, max_size=4))]]
        raise ValueError(node)
    if k == 'type':
        sub = node[1]
        pool = ['int', 'str', 'VBase', 'VDerived', 'VOther', 'bool', 'float', 'complex', 'bytes']
        pool += sorted(c for c in CLASSES if c not in pool and isinstance(CLASSES[c], type))
        ok = [c for c in pool if _is_type_member(sub, CLASSES[c])]
        return ['class', draw(st.sampled_from(ok))]
    if k == 'tv':
        if node[1] == 'VT':
            return draw(conforming(['any', 'Any'], hashable, size))
        if node[1] == 'VTB':
            return ['obj', draw(st.sampled_from(['VBase', 'VDerived']))]
        return draw(st.one_of(st.integers(-3, 3).map(lambda i: ['i', i]), _small_text.map(lambda s: ['s', s])))
    if k == 'nt':
        return draw(conforming(NEWTYPES[node[1]][1], hashable, size))
    if k == 'alias':
        return draw(conforming(ALIASES[node[1]][1], hashable, size))
    if k == 'ann':
        # a few tries to satisfy the validators too; callers re-check with conforms() and discard otherwise
        v = None
        for _ in range(6):
            v = draw(conforming(node[1], hashable, size))
            try:
                if all(validator_holds(m, realize(v)) for m in node[2]):
                    break
            except Exception:
                pass
        return v
    if k == 'proto':
        if node[1] == 'VSupportsFoo':
            return ['obj', 'VFooImpl']
        return draw(st.one_of(st.integers(-3, 3).map(lambda i: ['i', i]), st.just(['f', 1.5]), st.just(['b', True])))
    if k == 'mylist':
        return ['mylist', many(node[1] if node[1] is not None else ['any', 'Any'])]
    raise ValueError(node)


ALIENS = [['obj', 'VAlien'], ['n'], ['i', 0], ['s', 'zz'], ['tuple', []], ['list', []], ['f', 0.5],
          ['obj', 'VOther'], ['b', True], ['class', 'VAlien'], ['dict', []], ['fset', []], ['i', 7], ['s', ''],
          ['tuple', [['obj', 'VAlien']]], ['list', [['obj', 'VAlien']]]]


@st.composite
def rejecting_leaf(draw, node, hashable=False):
    """Value AST of an object that must_reject(node), chosen from a fixed alien pool; None if none does."""
    cands = [a for a in ALIENS if (not hashable or value_hashable(a)) and must_reject(node, realize(a))]
    if node[0] == 'lit':
        # objects *equal* to a member but of another type (1 / 1.0 for Literal[True], 0.0 for Literal[0]): rejected by PEP 586 and
        # by the generated check, and a trap for any code that compares with == only; first in the pool (sampled_from is biased
        # towards its first elements in rarely taken branches)
        twins = []
        for lv in node[1]:
            if lv[0] == 'b':
                twins += [['i', int(lv[1])], ['f', float(lv[1])]]
            elif lv[0] == 'i':
                twins.append(['f', float(lv[1])])
        twins = [t for i, t in enumerate(twins) if t not in twins[:i] and must_reject(node, realize(t))]
        cands = twins + twins + cands
    if not cands:
        return None
    return draw(st.sampled_from(cands))


@st.composite
def violating(draw, node, hashable=False):
    """(value AST, description) violating ``node`` somewhere, or None.  The description records the
    mode and path; the *classification* used by the oracles is always recomputed on the realized
    object with conforms()/must_reject()."""
    k = node[0]
    modes = ['top']
    if k in ('seq', 'reit', 'quasi', 'tupv', 'mylist') and (node[1] is not None if k == 'mylist' else True):
        modes += ['item', 'item', 'all']
    if k == 'map':
        modes += ['key', 'value', 'value', 'allvalues']
    if k == 'counter':
        modes += ['key', 'count', 'count']
    if k == 'tupf':
        modes += ['len', 'pos', 'pos'] if node[1] else ['len']
    if k == 'union':
        modes += ['member']
    if k in ('ann', 'nt', 'alias'):
        modes += ['inner', 'inner'] if k == 'alias' else ['inner']
    mode = draw(st.sampled_from(modes))
    if mode == 'top':
        v = draw(rejecting_leaf(node, hashable))
        return None if v is None else (v, {'mode': 'top', 'kind': k})
    if mode in ('item', 'all'):
        child = node[2] if k in ('seq', 'reit', 'quasi') else node[1]
        n = draw(st.sampled_from([1, 2, 3, 3, 4, 7, 8]))
        base = draw(conforming(node, hashable, st.just(n)))
        if base[0] not in ('list', 'tuple', 'deque', 'mylist', 'userseq', 'set', 'fset', 'userset') or not base[1]:
            return None
        items = list(base[1])
        h = base[0] in ('set', 'fset', 'userset') or hashable
        if mode == 'all':
            for j in range(len(items)):
                sub = draw(violating(child, h))
                if sub is None:
                    return None
                items[j] = sub[0]
            return [base[0], items], {'mode': 'all', 'kind': k, 'len': len(items)}
        i = draw(st.integers(0, len(items) - 1))
        sub = draw(violating(child, h))
        if sub is None:
            return None
        items[i] = sub[0]
        return [base[0], items], {'mode': 'item', 'kind': k, 'index': i, 'len': len(items), 'inner': sub[1]}
    if mode == 'count':
        # a Counter whose keys conform but one (or every) count is not an int: Counter[K] implies the value hint int
        n = draw(st.sampled_from([1, 1, 2, 3]))
        base = draw(conforming(node, hashable, st.just(n)))
        if base[0] != 'counter' or not base[1]:
            return None
        pairs = [list(p) for p in base[1]]
        bad = draw(st.sampled_from([1.5, 'x']))
        if draw(st.booleans()):
            pairs[0][1] = bad
        else:
            for p_ in pairs:
                p_[1] = bad
        return ['counter', pairs], {'mode': 'count', 'kind': k}
    if mode in ('key', 'value', 'allvalues'):
        n = draw(st.sampled_from([1, 2, 3, 4]))
        base = draw(conforming(node, hashable, st.just(n)))
        if base[0] == 'counter':
            sub = draw(violating(node[1], True))
            if sub is None or not base[1]:
                return None
            pairs = [list(p) for p in base[1]]
            pairs[draw(st.integers(0, len(pairs) - 1))][0] = sub[0]
            return ['counter', pairs], {'mode': 'key', 'kind': k}
        if not base[1]:
            return None
        pairs = [list(p) for p in base[1]]
        if mode == 'allvalues':
            for p in pairs:
                sub = draw(violating(node[3], False))
                if sub is None:
                    return None
                p[1] = sub[0]
            return [base[0], pairs], {'mode': 'allvalues', 'kind': k, 'len': len(pairs)}
        i = draw(st.integers(0, len(pairs) - 1))
        sub = draw(violating(node[2] if mode == 'key' else node[3], mode == 'key'))
        if sub is None:
            return None
        pairs[i][0 if mode == 'key' else 1] = sub[0]
        return [base[0], pairs], {'mode': mode, 'kind': k, 'index': i, 'len': len(pairs), 'inner': sub[1]}
    if mode == 'len':
        want = len(node[1])
        n = draw(st.sampled_from([x for x in (0, want - 1, want + 1, want + 2) if x >= 0 and x != want]))
        items = [draw(conforming(node[1][j % want], hashable)) if want else ['i', 0] for j in range(n)]
        return ['tuple', items], {'mode': 'len', 'kind': k, 'len': n, 'want': want}
    if mode == 'pos':
        items = [draw(conforming(m, hashable)) for m in node[1]]
        i = draw(st.integers(0, len(items) - 1))
        sub = draw(violating(node[1][i], hashable))
        if sub is None:
            return None
        items[i] = sub[0]
        return ['tuple', items], {'mode': 'pos', 'kind': k, 'index': i, 'inner': sub[1]}
    if mode == 'member':
        sub = draw(violating(draw(st.sampled_from(node[1])), hashable))
        return None if sub is None else (sub[0], {'mode': 'member', 'kind': k, 'inner': sub[1]})
    if mode == 'inner':
        inner = node[1] if k == 'ann' else NEWTYPES[node[1]][1] if k == 'nt' else ALIASES[node[1]][1]
        sub = draw(violating(inner, hashable))
        return None if sub is None else (sub[0], {'mode': 'inner', 'kind': k, 'inner': sub[1]})
    raise ValueError(mode)


def mentions_tv(node, name):
    k = node[0]
    if k == 'tv':
        return node[1] == name
    if k in ('union', 'tupf'):
        return any(mentions_tv(m, name) for m in node[1])
    if k in ('tupv', 'ann', 'mylist', 'counter', 'type'):
        return node[1] is not None and mentions_tv(node[1], name)
    if k in ('seq', 'reit', 'quasi'):
        return mentions_tv(node[2], name)
    if k == 'map':
        return mentions_tv(node[2], name) or mentions_tv(node[3], name)
    return False


def generic_arg_mentions_own_typevar(node):
    """A VMyList[...] whose argument is not the bare type variable but contains VT (the generic's own
    parameter) somewhere inside - the shape of known finding C01/generic-self-typevar."""
    k = node[0]
    if k == 'mylist' and node[1] is not None and node[1] != ['tv', 'VT'] and mentions_tv(node[1], 'VT'):
        return True
    if k in ('union', 'tupf'):
        return any(generic_arg_mentions_own_typevar(m) for m in node[1])
    if k in ('tupv', 'ann', 'mylist', 'counter'):
        return node[1] is not None and generic_arg_mentions_own_typevar(node[1])
    if k in ('seq', 'reit', 'quasi'):
        return generic_arg_mentions_own_typevar(node[2])
    if k == 'map':
        return generic_arg_mentions_own_typevar(node[2]) or generic_arg_mentions_own_typevar(node[3])
    return False


def replace_tv(node, old, new):
    k = node[0]
    if k == 'tv':
        return ['tv', new] if node[1] == old else node
    if k in ('union', 'tupf'):
        return [k, [replace_tv(m, old, new) for m in node[1]]] + node[2:]
    if k in ('tupv', 'ann', 'mylist', 'counter', 'type'):
        return [k, replace_tv(node[1], old, new) if node[1] is not None else None] + node[2:]
    if k in ('seq', 'reit', 'quasi'):
        return [k, node[1], replace_tv(node[2], old, new)]
    if k == 'map':
        return [k, node[1], replace_tv(node[2], old, new), replace_tv(node[3], old, new)]
    return node


def _map_children(node, fn):
    k = node[0]
    if k in ('union', 'tupf'):
        return [k, [fn(m) for m in node[1]]] + node[2:]
    if k in ('tupv', 'ann', 'mylist', 'counter', 'type'):
        return [k, fn(node[1]) if node[1] is not None else None] + node[2:]
    if k in ('seq', 'reit', 'quasi'):
        return [k, node[1], fn(node[2])]
    if k == 'map':
        return [k, node[1], fn(node[2]), fn(node[3])]
    return node


def merge_nested_annotated(node):
    """typing flattens Annotated[Annotated[T, a], b] into Annotated[T, a, b]; beartype documents that
    one Annotated must not mix its validators with foreign metadata, so directly nested Annotated
    nodes of different metadata kinds keep only the beartype validators (supported-grammar rule)."""
    node = _map_children(node, merge_nested_annotated)
    # typing collapses a union of one member (Union[X] is X): the member is what the parent really holds
    if node[0] == 'union' and len(node[1]) == 1 and node[2] != 'O':
        return node[1][0]
    if node[0] == 'ann' and node[1][0] == 'ann':
        inner = node[1]
        meta = list(inner[2]) + list(node[2])
        if any(m[0] == 'inert' for m in meta) and any(m[0] != 'inert' for m in meta):
            meta = [m for m in meta if m[0] != 'inert']
        return ['ann', inner[1], meta]
    return node


def _contains_subscripted_mylist(node):
    k = node[0]
    if k == 'mylist' and node[1] is not None:
        return True
    found = []
    _map_children(node, lambda c: found.append(_contains_subscripted_mylist(c)) or c)
    return any(found)


def generic_nested_in_itself(node):
    """VMyList[... VMyList[X] ...]: the shape of known finding C02/generic-nested-in-itself."""
    if node[0] == 'mylist' and node[1] is not None and _contains_subscripted_mylist(node[1]):
        return True
    found = []
    _map_children(node, lambda c: found.append(generic_nested_in_itself(c)) or c)
    return any(found)


def _unnest_mylist(node, inside=False):
    if node[0] == 'mylist' and node[1] is not None:
        if inside:
            return ['seq', 'list', _unnest_mylist(node[1], True)]
        return ['mylist', _unnest_mylist(node[1], True)]
    return _map_children(node, lambda c: _unnest_mylist(c, inside))


def avoid_known_shapes(node):
    """Normalise to the supported grammar and exclude by construction the hint shapes of listed known
    findings (returns node, n_excluded)."""
    node = merge_nested_annotated(node)
    n = 0
    if generic_nested_in_itself(node):
        node, n = _unnest_mylist(node), n + 1
    if generic_arg_mentions_own_typevar(node):
        node, n = replace_tv(node, 'VT', 'VTB'), n + 1
    return node, n


def known_shape_label(node):
    if generic_arg_mentions_own_typevar(node):
        return 'generic-arg-mentions-own-typevar'
    if generic_nested_in_itself(node):
        return 'generic-nested-in-itself'
    return None


def describe(node):
    """Short human-readable rendering of the real hint (for evidence samples)."""
    try:
        return repr(build(node))
    except Exception as e:  # pragma: no cover
        return '<unbuildable %s: %s>' % (node, e)
