"""Coverage-guided campaign for one property module: libFuzzer (atheris) mutates the byte string that Hypothesis decodes
into a case of ``mod.strategy(tier)``; beartype is imported under atheris' bytecode instrumentation so that the mutation is
steered by coverage of beartype itself.  The oracle is the module's own ``run_case`` (collect mode: failures are written
to <outdir>/finding-<md5(sig)>.json, smallest case per signature, and the campaign goes on).

usage: fuzz_driver.py <PID> <tier> <outdir> <seconds> <seed>
Runs as a child process of the property's extra_engine (atheris.Fuzz() ends with os._exit).  Output files:
  <outdir>/stats.json     executions, distinct non-trivial cases, classes (rewritten every 200 executions)
  <outdir>/finding-*.json {'sig', 'detail', 'case'}
  <outdir>/corpus/        libFuzzer corpus of this campaign (fresh directory per run)
"""
import hashlib
import json
import os
import sys
import time


def main():
    pid, tier, outdir, seconds, seed = sys.argv[1], sys.argv[2], sys.argv[3], int(sys.argv[4]), int(sys.argv[5])
    verif = os.path.dirname(os.path.dirname(os.path.abspath(__file__)))
    repo = os.environ.get('VERIF_REPO', '/repo')
    sys.path[:0] = [repo, verif, os.path.join(verif, '.deps')]
    os.environ.pop('BEARTYPE_IS_COLOR', None)
    os.makedirs(os.path.join(outdir, 'corpus'), exist_ok=True)
    from vlib import sampler  # noqa: F401  (must precede beartype)
    import atheris
    with atheris.instrument_imports(include=['beartype']):
        import beartype  # noqa: F401
        import beartype.door  # noqa: F401
        import beartype.vale  # noqa: F401
        import beartype.claw  # noqa: F401
        import importlib
        mod = importlib.import_module('vlib.props.' + pid.lower())
    import hypothesis
    from hypothesis import HealthCheck, given, settings

    stats = {'executions': 0, 'nontrivial': 0, 'classes': {}, 'findings': 0, 'harness_errors': 0, 't0': time.time()}
    seen_nontrivial = set()
    best = {}

    def flush():
        tmp = os.path.join(outdir, 'stats.json.tmp')
        with open(tmp, 'w') as fh:
            json.dump(dict(stats, wall_s=round(time.time() - stats['t0'], 1)), fh)
        os.replace(tmp, os.path.join(outdir, 'stats.json'))

    @settings(database=None, deadline=None, suppress_health_check=list(HealthCheck), max_examples=10 ** 9,
              verbosity=hypothesis.Verbosity.quiet)
    @given(mod.strategy(tier))
    def test(case):
        stats['executions'] += 1
        try:
            res = mod.run_case(case)
        except Exception as e:   # a harness problem is never a verdict about beartype
            stats['harness_errors'] += 1
            stats['last_harness_error'] = repr(e)[:300]
            return
        canon = json.dumps(case, sort_keys=True, default=repr)
        if res.get('nontrivial'):
            h = hashlib.blake2b(canon.encode(), digest_size=8).digest()
            if h not in seen_nontrivial:
                seen_nontrivial.add(h)
                stats['nontrivial'] = len(seen_nontrivial)
        for c in res.get('classes', ()):
            stats['classes'][c] = stats['classes'].get(c, 0) + 1
        for f in res.get('fails', ()):
            sig = f['sig']
            if sig not in best or len(canon) < best[sig]:
                best[sig] = len(canon)
                stats['findings'] = len(best)
                path = os.path.join(outdir, 'finding-%s.json' % hashlib.md5(sig.encode()).hexdigest()[:10])
                with open(path + '.tmp', 'w') as fh:
                    json.dump({'sig': sig, 'detail': f['detail'][:2000], 'case': case}, fh, default=repr)
                os.replace(path + '.tmp', path)
        if stats['executions'] % 200 == 0:
            flush()

    flush()
    argv = [sys.argv[0], '-max_total_time=%d' % seconds, '-seed=%d' % (seed or 1), '-rss_limit_mb=6000', '-timeout=120',
            '-max_len=4096', '-print_final_stats=0', '-verbosity=0', os.path.join(outdir, 'corpus')]
    atheris.Setup(argv, test.hypothesis.fuzz_one_input)
    try:
        atheris.Fuzz()
    finally:
        flush()


if __name__ == '__main__':
    main()
