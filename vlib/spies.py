"""Instrumented containers for C09 (cost) and C10 (no mutation / consumption).

Every spy appends the name of each method invoked on it to a shared log and counts item reads
(``__getitem__`` calls, successful ``__next__`` calls of iterators it hands out) in a shared counter.
"""
import collections
import collections.abc as cabc

LOG = []          # (class name, method name, id of the spy)
COUNT = collections.Counter()
ACTIVE = [True]


def reset():
    del LOG[:]
    COUNT.clear()


def _rec(obj, name):
    if ACTIVE[0]:
        LOG.append((type(obj).__name__, name, id(obj)))
        COUNT[name] += 1


class CountingIter:
    """Iterator wrapper counting items handed out."""

    def __init__(self, it, owner):
        self._it = it
        self._owner = owner

    def __iter__(self):
        return self

    def __next__(self):
        v = next(self._it)
        if ACTIVE[0]:
            COUNT['item_read'] += 1
            LOG.append((type(self._owner).__name__, 'iterator.__next__', id(self._owner)))
        return v


class CountingView:
    """keys()/values()/items() result of a spy mapping."""

    def __init__(self, view, owner, name):
        self._view, self._owner, self._name = view, owner, name

    def __iter__(self):
        _rec(self._owner, self._name + '.__iter__')
        return CountingIter(iter(self._view), self._owner)

    def __len__(self):
        return len(self._view)

    def __contains__(self, x):
        _rec(self._owner, self._name + '.__contains__')
        return x in self._view

    def __repr__(self):
        return '<counting %s view>' % self._name


def _common(base, mutators=()):
    """Methods shared by the builtin-subclass spies."""
    ns = {}

    def __len__(self):
        _rec(self, '__len__')
        return base.__len__(self)

    def __iter__(self):
        _rec(self, '__iter__')
        return CountingIter(base.__iter__(self), self)

    def __contains__(self, x):
        _rec(self, '__contains__')
        return base.__contains__(self, x)

    def __repr__(self):
        _rec(self, '__repr__')
        n = base.__len__(self)
        return '<%s of %d items>' % (type(self).__name__, n)
    ns.update(__len__=__len__, __iter__=__iter__, __contains__=__contains__, __repr__=__repr__)
    if hasattr(base, '__getitem__'):
        def __getitem__(self, i):
            _rec(self, '__getitem__')
            if ACTIVE[0]:
                COUNT['item_read'] += 1
            return base.__getitem__(self, i)
        ns['__getitem__'] = __getitem__
    if hasattr(base, '__reversed__'):
        def __reversed__(self):
            _rec(self, '__reversed__')
            return CountingIter(base.__reversed__(self), self)
        ns['__reversed__'] = __reversed__
    for m in mutators:
        if hasattr(base, m):
            def mk(m):
                def mut(self, *a, **k):
                    _rec(self, 'MUTATOR:' + m)
                    return getattr(base, m)(self, *a, **k)
                mut.__name__ = m
                return mut
            ns[m] = mk(m)
    return ns


_LIST_MUT = ('append', 'extend', 'insert', 'pop', 'remove', 'clear', 'sort', 'reverse', '__setitem__', '__delitem__',
             '__iadd__', '__imul__')
_SET_MUT = ('add', 'discard', 'remove', 'pop', 'clear', 'update', 'difference_update', 'intersection_update',
            'symmetric_difference_update', '__ior__', '__iand__', '__isub__', '__ixor__')
_DICT_MUT = ('__setitem__', '__delitem__', 'pop', 'popitem', 'clear', 'update', 'setdefault', '__ior__')
_DEQUE_MUT = ('append', 'appendleft', 'extend', 'extendleft', 'pop', 'popleft', 'remove', 'clear', 'rotate', 'reverse',
              'insert', '__setitem__', '__delitem__', '__iadd__')

SpyList = type('SpyList', (list,), dict(_common(list, _LIST_MUT), __hash__=None))
SpyTuple = type('SpyTuple', (tuple,), _common(tuple))
SpySet = type('SpySet', (set,), dict(_common(set, _SET_MUT), __hash__=None))
SpyFrozenSet = type('SpyFrozenSet', (frozenset,), _common(frozenset))
SpyDeque = type('SpyDeque', (collections.deque,), dict(_common(collections.deque, _DEQUE_MUT), __hash__=None))


def _dict_ns(base):
    ns = _common(base, _DICT_MUT)

    def keys(self):
        _rec(self, 'keys')
        return CountingView(base.keys(self), self, 'keys')

    def values(self):
        _rec(self, 'values')
        return CountingView(base.values(self), self, 'values')

    def items(self):
        _rec(self, 'items')
        return CountingView(base.items(self), self, 'items')

    def get(self, k, d=None):
        _rec(self, 'get')
        if ACTIVE[0]:
            COUNT['item_read'] += 1
        return base.get(self, k, d)
    ns.update(keys=keys, values=values, items=items, get=get, __hash__=None)
    return ns


SpyDict = type('SpyDict', (dict,), _dict_ns(dict))
SpyOrderedDict = type('SpyOrderedDict', (collections.OrderedDict,), _dict_ns(collections.OrderedDict))


class SpyDefaultDict(collections.defaultdict):
    """defaultdict whose factory and __missing__ are logged (an insertion by a check would call them)."""
    locals().update(_dict_ns(collections.defaultdict))

    def __missing__(self, key):
        _rec(self, 'MUTATOR:__missing__')
        return collections.defaultdict.__missing__(self, key)


class SpySeq(cabc.Sequence):
    """Sequence through the ABC only."""

    def __init__(self, items):
        self._items = list(items)

    def __getitem__(self, i):
        _rec(self, '__getitem__')
        if ACTIVE[0]:
            COUNT['item_read'] += 1
        return self._items[i]

    def __len__(self):
        _rec(self, '__len__')
        return len(self._items)

    def __repr__(self):
        _rec(self, '__repr__')
        return '<SpySeq of %d items>' % len(self._items)


class SpyColl(cabc.Collection):
    """Collection that is neither a Sequence nor a Set."""

    def __init__(self, items):
        self._items = list(items)

    def __iter__(self):
        _rec(self, '__iter__')
        return CountingIter(iter(self._items), self)

    def __len__(self):
        _rec(self, '__len__')
        return len(self._items)

    def __contains__(self, x):
        _rec(self, '__contains__')
        return x in self._items

    def __repr__(self):
        _rec(self, '__repr__')
        return '<SpyColl of %d items>' % len(self._items)


class SpyAbstractSet(cabc.Set):
    def __init__(self, items):
        self._items = list(dict.fromkeys(items))

    def __iter__(self):
        _rec(self, '__iter__')
        return CountingIter(iter(self._items), self)

    def __len__(self):
        _rec(self, '__len__')
        return len(self._items)

    def __contains__(self, x):
        _rec(self, '__contains__')
        return x in self._items

    def __repr__(self):
        _rec(self, '__repr__')
        return '<SpyAbstractSet of %d items>' % len(self._items)


class SpyMap(cabc.Mapping):
    def __init__(self, pairs):
        self._d = dict(pairs)

    def __getitem__(self, k):
        _rec(self, '__getitem__')
        if ACTIVE[0]:
            COUNT['item_read'] += 1
        return self._d[k]

    def __iter__(self):
        _rec(self, '__iter__')
        return CountingIter(iter(self._d), self)

    def __len__(self):
        _rec(self, '__len__')
        return len(self._d)

    def __repr__(self):
        _rec(self, '__repr__')
        return '<SpyMap of %d items>' % len(self._d)


class SpyIterable:
    """Iterable that is not a Collection: must never be iterated by a check."""

    def __init__(self, items):
        self._items = list(items)

    def __iter__(self):
        _rec(self, '__iter__')
        return CountingIter(iter(self._items), self)

    def __repr__(self):
        _rec(self, '__repr__')
        return '<SpyIterable of %d items>' % len(self._items)


class SpyIterator:
    """One-shot iterator with a logged __next__."""

    def __init__(self, items):
        self._it = iter(list(items))
        self.consumed = 0

    def __iter__(self):
        _rec(self, '__iter__')
        return self

    def __next__(self):
        _rec(self, 'MUTATOR:__next__')
        v = next(self._it)
        self.consumed += 1
        return v

    def __repr__(self):
        _rec(self, '__repr__')
        return '<SpyIterator>'


class SpySizedIterator(SpyIterator):
    """One-shot iterator that also reports how many items remain (__len__) but is no Collection (no __contains__)."""

    def __init__(self, items):
        SpyIterator.__init__(self, items)
        self._n = len(list(items)) if not isinstance(items, list) else len(items)

    def __len__(self):
        _rec(self, '__len__')
        return self._n - self.consumed


class SpyContainerIterator(SpyIterator):
    """One-shot iterator that supports ``in`` (__contains__) but has no __len__ - again no Collection."""

    def __contains__(self, x):
        _rec(self, '__contains__')
        return False
