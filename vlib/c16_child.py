"""Child interpreter for C16: one 'interpreter run' over a scratch package.

usage: python c16_child.py <json>   with json = {"repo":..., "root": <dir containing the package>, "hook": <token>,
                                               "mode": "run" | "threads", "schedule": [...]}
Prints one JSON line: the behavioural fingerprint of the run (and, in threads mode, what the scheduler did)."""
import json
import os
import sys
import warnings


def conf_for(token):
    from beartype import BeartypeConf, BeartypeDecorPlace, BeartypeStrategy
    return {
        'strategy_o0': BeartypeConf(strategy=BeartypeStrategy.O0),
        'strategy_on': BeartypeConf(strategy=BeartypeStrategy.On),
        'tower': BeartypeConf(is_pep484_tower=True),
        'default': BeartypeConf(),
        'pep526off': BeartypeConf(claw_is_pep526=False),
        'place_first': BeartypeConf(claw_decor_place_func=BeartypeDecorPlace.FIRST, claw_decor_place_type=BeartypeDecorPlace.FIRST),
        'type_first': BeartypeConf(claw_decor_place_type=BeartypeDecorPlace.FIRST),
        'func_first': BeartypeConf(claw_decor_place_func=BeartypeDecorPlace.FIRST),
        'viol_warn': BeartypeConf(violation_type=UserWarning),
        'viol_value': BeartypeConf(violation_type=ValueError),
    }[token]


def install(hook):
    """Register the hook(s) of a setting: one configuration for the package, or ('mix:A:B') configuration A for the package and
    configuration B for the one module c16pkg.mod_b (the most specific registration wins for that module)."""
    from beartype.claw import beartype_package
    if hook.startswith('mix:'):
        _m, a, b = hook.split(':')
        beartype_package('c16pkg', conf=conf_for(a))
        beartype_package('c16pkg.mod_b', conf=conf_for(b))
    else:
        beartype_package('c16pkg', conf=conf_for(hook))


def probe(thunk):
    with warnings.catch_warnings(record=True) as wl:
        warnings.simplefilter('always')
        try:
            thunk()
            out = 'ok'
        except BaseException as e:
            out = 'raised:' + type(e).__name__
    ws = sorted({w.category.__name__ for w in wl if 'Deprecat' not in w.category.__name__})
    return out + ('+warned:' + ','.join(ws) if ws else '')


def fingerprint():
    import importlib
    fp = {}

    def imp(name):
        def t():
            importlib.import_module(name)
        return t
    for name in ('c16pkg', 'c16pkg.mod_a', 'c16pkg.mod_b', 'c16pkg.sub.mod_c'):
        fp['import ' + name] = probe(imp(name))
    a = sys.modules.get('c16pkg.mod_a')
    if a is not None and hasattr(a, 'f'):
        fp['a.f(1)'] = probe(lambda: a.f(1))
        fp["a.f('s')"] = probe(lambda: a.f('s'))
        fp['a.K().m(1)'] = probe(lambda: a.K().m(1))
        fp["a.K().m('s')"] = probe(lambda: a.K().m('s'))
        fp['a.decorated'] = probe(lambda: a.deco_f('s'))
        fp["a.P('s')"] = probe(lambda: a.P('s'))
    c = sys.modules.get('c16pkg.sub.mod_c')
    if c is not None and hasattr(c, 'h'):
        fp["c.h('s')"] = probe(lambda: c.h('s'))
        fp['c.h(2)'] = probe(lambda: c.h(2))
    return fp


def main():
    arg = json.loads(sys.argv[1])
    sys.path.insert(0, arg['repo'])
    sys.path.insert(0, arg['root'])
    sys.dont_write_bytecode = False
    hook = arg['hook']
    if arg.get('mode') == 'threads':
        return threads(arg)
    if hook != 'off':
        install(hook)
    print(json.dumps({'fingerprint': fingerprint()}))


def threads(arg):
    """Two threads: one imports a hooked module, the other an unhooked one, under the controlled scheduler."""
    sys.path.insert(0, arg['verif'])
    from vlib import sched
    sched.install_coop_locks()
    import beartype
    import beartype.claw  # noqa: F401
    import beartype.claw._importlib._clawimpfileloader  # noqa: F401
    import beartype.claw._ast.clawastmain  # noqa: F401
    import beartype.door  # noqa: F401
    sched.import_lock_users()
    sched.restore_real_locks()
    import importlib
    install(arg['hook'])
    # warm the machinery up on modules that are not part of the race
    # parent packages are imported up front: two threads importing siblings would otherwise queue on the parent's (real,
    # uncooperative) per-module import lock
    for parent in ('c16pkg', 'c16pkg.sub', 'c16other'):
        importlib.import_module(parent)
    importlib.import_module('c16warm')
    prefix = os.path.dirname(beartype.__file__) + os.sep
    import _imp
    s = sched.Scheduler(len(arg.get('programs') or [0, 0]), arg['schedule'], prefix, (), step_timeout=20.0, defer=_imp.lock_held)

    def runner(mods):
        def run():
            for m in mods:
                importlib.import_module(m)
            return 'ok'
        return run
    programs = arg.get('programs')
    if programs is None:      # older replay files: one hooked and one unhooked import
        programs = [['c16pkg.mod_a'], ['c16other.mod_u']] if arg.get('hooked_first', True) else [['c16other.mod_u'], ['c16pkg.mod_a']]
    fns = [runner(p) for p in programs]
    s.run(fns)
    print(json.dumps({'errors': [None if e is None else '%s: %s' % (type(e).__name__, str(e)[:200]) for e in s.errors],
                      'deadlock': s.deadlock, 'timeout': s.timeout, 'switches': s.switches,
                      'concurrent_switches': s.concurrent_switches, 'steps': s.steps, 'per_thread': s.inside}))


if __name__ == '__main__':
    main()
