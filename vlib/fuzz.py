"""Parent side of the coverage-guided engine (see fuzz_driver.py): installs atheris offline next to the harness if needed,
runs N independent libFuzzer campaigns in child interpreters, and feeds every case a campaign reported back through the
property's own run_case in this process, so that findings take the normal path (known-finding matching, replay files)."""
import glob
import json
import os
import shutil
import subprocess
import sys

VERIF = os.path.dirname(os.path.dirname(os.path.abspath(__file__)))
DEPS = os.path.join(VERIF, '.deps')
WHEELS = '/opt/veriftools/wheels'


def ensure_atheris():
    """True when ``import atheris`` works in a child with PYTHONPATH=.deps (installed from the offline wheelhouse if absent)."""
    probe = [sys.executable, '-c', 'import sys; sys.path.insert(0, %r); import atheris' % DEPS]
    if subprocess.run(probe, capture_output=True).returncode == 0:
        return True
    subprocess.run([sys.executable, '-m', 'pip', 'install', '-q', '--no-index', '--find-links', WHEELS, '--target', DEPS, 'atheris'],
                   capture_output=True, env=dict(os.environ, PIP_NO_INDEX='1'))
    return subprocess.run(probe, capture_output=True).returncode == 0


def campaign(mod, pid, tier, seed, agg, safe_run_case, seconds, procs=8):
    if not ensure_atheris():
        agg.extra['atheris_unavailable'] = 1
        return
    root = os.path.join(VERIF, 'out', pid, 'fuzz')
    shutil.rmtree(root, ignore_errors=True)
    children = []
    for k in range(procs):
        outdir = os.path.join(root, str(k))
        os.makedirs(outdir)
        env = dict(os.environ, PYTHONHASHSEED='0')
        children.append(subprocess.Popen(
            [sys.executable, '-B', os.path.join(VERIF, 'vlib', 'fuzz_driver.py'), pid, tier, outdir, str(seconds), str(seed * 1000 + k + 1)],
            stdout=subprocess.DEVNULL, stderr=subprocess.DEVNULL, env=env, cwd=VERIF))
    for c in children:
        try:
            c.wait(seconds + 300)
        except subprocess.TimeoutExpired:
            c.kill()
    execs = nontriv = 0
    crashed = 0
    for k in range(procs):
        outdir = os.path.join(root, str(k))
        try:
            with open(os.path.join(outdir, 'stats.json')) as fh:
                st = json.load(fh)
            execs += st['executions']
            nontriv += st['nontrivial']
            for c, n in st['classes'].items():
                agg.classes['fuzz:' + c] = agg.classes.get('fuzz:' + c, 0) + n
            if st.get('harness_errors'):
                agg.extra['atheris_harness_errors'] = agg.extra.get('atheris_harness_errors', 0) + st['harness_errors']
        except Exception:
            crashed += 1
        # libFuzzer's own crash / timeout artefacts (the interpreter died inside a case): inconclusive, reported in the evidence
        crashed += len(glob.glob(os.path.join(VERIF, 'crash-*'))) + len(glob.glob(os.path.join(VERIF, 'timeout-*')))
        for path in sorted(glob.glob(os.path.join(outdir, 'finding-*.json'))):
            try:
                with open(path) as fh:
                    f = json.load(fh)
            except Exception:
                continue
            safe_run_case(mod, f['case'], agg)
        shutil.rmtree(os.path.join(outdir, 'corpus'), ignore_errors=True)
    for junk in glob.glob(os.path.join(VERIF, 'crash-*')) + glob.glob(os.path.join(VERIF, 'timeout-*')) + glob.glob(os.path.join(VERIF, 'oom-*')):
        os.remove(junk)
    agg.extra['atheris_campaigns'] = procs
    agg.extra['atheris_seconds_each'] = seconds
    agg.extra['atheris_executions'] = execs
    agg.extra['atheris_distinct_nontrivial'] = nontriv
    if crashed:
        agg.extra['atheris_inconclusive_children'] = crashed
