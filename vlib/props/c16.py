"""C16 - hooked and unhooked bytecode caches never mix; cached bytecode is never stale.

(a) process histories: a scratch package under $TMPDIR is imported by a sequence of fresh interpreters, each with its own
    hook setting, with source edits in between; the behavioural fingerprint of the last run must equal that of the same
    configuration on the same sources without any __pycache__; after every run each .pyc must reference beartype's injected
    names iff its file name carries beartype's marker.
(b) schedules: inside one interpreter a hooked and an unhooked module are imported by two threads under the controlled
    scheduler of vlib/sched.py (every line inside beartype is a yield point); afterwards the same file invariant is checked."""
import json
import marshal
import os
import shutil
import subprocess
import sys
import tempfile

from hypothesis import strategies as st

PID = 'C16'
LEVEL = 'exploration'
BUDGET = {'quick': 96, 'thorough': 4000}
CAP_S = {'quick': 220, 'thorough': 3000}
RULE = ('two case families. history: a scratch package (4 modules: annotated functions, a class, a pre-decorated function, a class replaced by a factory decorator, a violating '
        'module-level annotated assignment) + a sequence of 2-5 interpreter runs, each with a hook setting from {off, default, '
        'claw_is_pep526=False, FIRST decorator placement (both / types only / functions only), strategy O0 / On, is_pep484_tower, violation_type=UserWarning, violation_type=ValueError, and two-registration settings mix:A:B = configuration A for the package and B for one of its modules} and optional source edits '
        'between runs (comment appended / annotation changed, mtime advanced by 2 s). Oracle: fingerprint (import outcomes and probe-call '
        'verdicts) of the last run == fingerprint of the same setting after deleting every __pycache__; file invariant after every run. '
        'threads: hook setting x 2-3 threads each importing 1-2 modules (hooked and unhooked mixed) x schedule (list of run lengths, the first a fraction of the first thread\'s own length) in '
        'one interpreter; oracle: file invariant (the unhooked module must not be cached under the beartype marker nor vice versa), no '
        'exception, no deadlock. non-trivial = consecutive runs differ in hook setting or a source edit happened (history), or a context '
        'switch occurred while both imports were in flight (threads); distinct by canonical JSON')
ASSUMPTIONS = [
    'every source edit changes the file size and advances mtime by >= 2 s (CPython validates .pyc files by (mtime seconds, size))',
    'child interpreters run with PYTHONDONTWRITEBYTECODE unset and PYTHONHASHSEED=0',
]

_CALIBRATION = {}
# one setting per configuration option that could plausibly influence the transformed bytecode (marker fields) or is known not to
HOOKS = ['off', 'default', 'pep526off', 'place_first', 'type_first', 'func_first', 'viol_warn', 'viol_value', 'strategy_o0', 'strategy_on', 'tower',
         # two registrations in one process: configuration A for the package, configuration B for one of its modules (imported
         # after a sibling that is hooked under A)
         'mix:pep526off:default', 'mix:default:pep526off', 'mix:viol_warn:default']
CHILD = os.path.join(os.path.dirname(os.path.dirname(os.path.abspath(__file__))), 'c16_child.py')

MOD_A = '''import functools
def userdeco(fn):
    @functools.wraps(fn)
    def inner(*a, **k):
        return fn(*a, **k)
    return inner

def f(x: {ann}) -> {ann}:
    return x

class K:
    def m(self, x: int) -> int:
        return x

@userdeco
def deco_f(x: int) -> int:
    return x

def as_factory(cls):
    def make(*a, **k):
        return cls(*a, **k)
    return make

@as_factory
class P:
    def __init__(self, x: int) -> None:
        self.x = x
'''
MOD_B = '''from c16pkg import mod_a
def g(x: int) -> int:
    return x
BAD: int = 'not an int'
'''
MOD_C = '''def h(x: int) -> int:
    return x
class Q:
    value: int = 3
'''
MOD_U = '''def u(x: int) -> int:
    return x
NOT_CHECKED: int = 'fine when unhooked'
'''


def write_tree(root, ann='int'):
    os.makedirs(os.path.join(root, 'c16pkg', 'sub'))
    os.makedirs(os.path.join(root, 'c16other'))
    files = {
        'c16pkg/__init__.py': '', 'c16pkg/mod_a.py': MOD_A.format(ann=ann), 'c16pkg/mod_b.py': MOD_B,
        'c16pkg/sub/__init__.py': '', 'c16pkg/sub/mod_c.py': MOD_C,
        'c16other/__init__.py': '', 'c16other/mod_u.py': MOD_U, 'c16other/mod_v.py': MOD_U.replace('def u(', 'def v('),
        'c16warm.py': 'X = 1\n',
    }
    for rel, text in files.items():
        with open(os.path.join(root, rel), 'w') as fh:
            fh.write(text)
    set_mtimes(root, 1_700_000_000)


def set_mtimes(root, t):
    for d, _dirs, fs in os.walk(root):
        for f in fs:
            if f.endswith('.py'):
                os.utime(os.path.join(d, f), (t, t))


def child(arg, timeout=120):
    from vlib.runner import REPO, VERIF
    arg = dict(arg, repo=REPO, verif=VERIF)
    env = {k: v for k, v in os.environ.items() if k not in ('PYTHONDONTWRITEBYTECODE',)}
    env['PYTHONHASHSEED'] = '0'
    p = subprocess.run([sys.executable, CHILD, json.dumps(arg)], capture_output=True, text=True, timeout=timeout, env=env, cwd=arg['root'])
    for line in reversed(p.stdout.strip().splitlines()):
        if line.startswith('{'):
            return json.loads(line), p
    return None, p


def _names(code, out):
    out.update(code.co_names)
    for c in code.co_consts:
        if hasattr(c, 'co_names'):
            _names(c, out)
        elif isinstance(c, str):
            out.add(c)
    return out


def pyc_inventory(root):
    """[(relative pyc path, marked: bool, transformed: bool)]"""
    inv = []
    for d, _dirs, fs in os.walk(root):
        if os.path.basename(d) != '__pycache__':
            continue
        for f in fs:
            if not f.endswith('.pyc'):
                continue
            path = os.path.join(d, f)
            try:
                with open(path, 'rb') as fh:
                    data = fh.read()
                code = marshal.loads(data[16:])
                names = _names(code, set())
            except Exception:
                continue
            transformed = any(n in names for n in ('__beartype__', '__die_if_unbearable_beartype__', '__claw_state_beartype__'))
            # an empty / docstring-only module is left untransformed even when hooked: nothing to say about it
            trivial = len(data) < 140
            inv.append((os.path.relpath(path, root), 'beartype' in f, transformed, trivial))
    return sorted(inv)


def rm_pycache(root):
    for d, dirs, _fs in os.walk(root):
        for x in list(dirs):
            if x == '__pycache__':
                shutil.rmtree(os.path.join(d, x))


@st.composite
def _history(draw, tier):
    n = draw(st.integers(2, 5 if tier == 'thorough' else 4))
    # each history alternates between two or three settings so that a setting meets bytecode cached under each other one
    pool = draw(st.lists(st.sampled_from(HOOKS), min_size=2, max_size=3, unique=True))
    if draw(st.integers(0, 3)) == 0:
        # one history in four is about a two-registration setting and the plain settings of its two parts
        mix = draw(st.sampled_from([h for h in HOOKS if h.startswith('mix:')]))
        pool = [mix, mix.split(':')[1]] + draw(st.lists(st.sampled_from([mix.split(':')[2], 'off']), max_size=1))
    # a two-registration setting always meets the plain setting of its package part
    pool += [h.split(':')[1] for h in pool if h.startswith('mix:') and h.split(':')[1] not in pool]
    hooked = [h for h in pool if h != 'off']
    runs = []
    for i in range(n):
        # the last run is a hooked one (an unhooked last run only checks that hooked bytecode is not picked up) four times out of five
        last_pool = hooked * 4 + (['off'] if 'off' in pool else [])
        runs.append({'hook': draw(st.sampled_from(pool if i < n - 1 else last_pool)),
                     'edit': draw(st.sampled_from(['none', 'none', 'comment', 'annotation'])) if i else 'none'})
    return {'family': 'history', 'runs': runs}


HOOKED_MODS = ['c16pkg.mod_a', 'c16pkg.sub.mod_c']    # (mod_b fails its own import under pep526 hooks by design)
UNHOOKED_MODS = ['c16other.mod_u', 'c16other.mod_v']


@st.composite
def _threads(draw, tier):
    # 2-3 threads, each importing 1-2 modules (hooked and unhooked ones mixed, e.g. a thread that finishes a hooked import and goes
    # on to an unhooked one while another thread is still inside a hooked compilation).  The first run length is a fraction of the
    # number of yield points the first thread needs on its own (calibrated once per worker), so that the preemption lands inside
    # its imports.
    n = draw(st.sampled_from([2, 2, 3]))
    pool = HOOKED_MODS + UNHOOKED_MODS
    # every module is imported by one thread only (two threads importing the same module queue on its per-module import lock, a
    # real lock the scheduler does not own)
    order = draw(st.permutations(pool))
    sizes = [draw(st.integers(1, 2)) for _ in range(n)]
    programs, i = [], 0
    for sz in sizes:
        programs.append(list(order[i:i + sz]) or [order[-1]])
        i += sz
    programs = [p for p in programs if p][:n]
    if not any(m in HOOKED_MODS for p in programs for m in p):
        programs[0][0] = 'c16pkg.mod_a'
    if not any(m in UNHOOKED_MODS for p in programs for m in p):
        programs[-1].append(draw(st.sampled_from(UNHOOKED_MODS)))
    return {'family': 'threads', 'hook': draw(st.sampled_from(['default', 'pep526off', 'viol_warn'])),
            'programs': programs, 'first_fraction': draw(st.integers(0, 1000)),
            'schedule': draw(st.lists(st.one_of(st.integers(0, 60), st.integers(0, 600), st.integers(0, 6000)), min_size=0, max_size=4))}


def strategy(tier):
    return st.one_of(_history(tier), _history(tier), _threads(tier))


def _invariant(root, fail, where):
    for rel, marked, transformed, trivial in pyc_inventory(root):
        if rel.startswith('c16warm') or trivial:
            continue
        if marked and not transformed and 'c16other' in rel:
            fail('unhooked-bytecode-under-beartype-marker', '%s: %s carries the beartype marker but holds untransformed code' % (where, rel))
        elif marked != transformed and 'mod_' in rel:
            fail('marker-content-mismatch:%s' % ('marked-untransformed' if marked else 'unmarked-transformed'),
                 '%s: %s marked=%r transformed=%r' % (where, rel, marked, transformed))


def run_case(case):
    root = tempfile.mkdtemp(prefix='c16_', dir=os.environ.get('TMPDIR') or '/tmp')
    fails, seen = [], set()

    def fail(sig, detail):
        if sig not in seen:
            seen.add(sig)
            fails.append({'sig': sig, 'detail': '%r: %s' % (case, detail)})
    evals = 0
    try:
        write_tree(root)
        if case['family'] == 'threads':
            programs = case.get('programs') or ([['c16pkg.mod_a'], ['c16other.mod_u']] if case.get('hooked_first', True)
                                                 else [['c16other.mod_u'], ['c16pkg.mod_a']])
            key = (case['hook'], json.dumps(programs))
            if key not in _CALIBRATION:
                cal_root = tempfile.mkdtemp(prefix='c16cal_', dir=os.environ.get('TMPDIR') or '/tmp')
                try:
                    write_tree(cal_root)
                    cal, _p = child({'root': cal_root, 'hook': case['hook'], 'mode': 'threads', 'schedule': [10 ** 9], 'programs': programs})
                    _CALIBRATION[key] = cal['per_thread'][0] if cal and not cal['timeout'] else 2000
                finally:
                    shutil.rmtree(cal_root, ignore_errors=True)
            n0 = _CALIBRATION[key]
            schedule = [case.get('first_fraction', 500) * n0 // 1000] + list(case['schedule'])
            case = dict(case, schedule=schedule)
            out, p = child({'root': root, 'hook': case['hook'], 'mode': 'threads', 'schedule': schedule, 'programs': programs})
            evals = 1
            if out is None:
                return {'fails': [], 'nontrivial': False, 'classes': ['inconclusive:child-failed'], 'evals': 1,
                        'extra': {'inconclusive_children': 1}}
            if out['timeout']:
                return {'fails': [], 'nontrivial': False, 'classes': ['inconclusive:scheduler-timeout'], 'evals': 1,
                        'extra': {'inconclusive_timeouts': 1}}
            if out['deadlock']:
                fail('deadlock:concurrent-import', repr(out))
            for e in out['errors']:
                if e is not None:
                    fail('concurrent-import-raised:%s' % e.split(':')[0], e)
            _invariant(root, fail, 'after concurrent imports (schedule %r)' % (case['schedule'],))
            return {'fails': fails, 'nontrivial': out['concurrent_switches'] >= 1, 'evals': 1,
                    'classes': ['threads', 'hook:' + case['hook'], 'overlap' if out['concurrent_switches'] else 'no-overlap']}
        t = 1_700_000_000
        ann = 'int'
        last = None
        changed = False
        for i, run in enumerate(case['runs']):
            if run['edit'] == 'comment':
                with open(os.path.join(root, 'c16pkg', 'mod_a.py'), 'a') as fh:
                    fh.write('# edit %d\n' % i)
                changed = True
            elif run['edit'] == 'annotation':
                ann = 'str' if ann == 'int' else 'int'
                with open(os.path.join(root, 'c16pkg', 'mod_a.py'), 'w') as fh:
                    fh.write(MOD_A.format(ann=ann) + '# rewritten %d %s\n' % (i, 'x' * i))
                changed = True
            if run['edit'] != 'none':
                t += 2
                set_mtimes(root, t)
            out, p = child({'root': root, 'hook': run['hook'], 'mode': 'run'})
            evals += 1
            if out is None:
                fail('run-crashed:%s' % run['hook'], (p.stderr or p.stdout)[-400:])
                break
            last = out['fingerprint']
            _invariant(root, fail, 'after run %d (%s)' % (i, run['hook']))
        if last is not None:
            rm_pycache(root)
            ref, p = child({'root': root, 'hook': case['runs'][-1]['hook'], 'mode': 'run'})
            evals += 1
            if ref is None:
                fail('reference-run-crashed', (p.stderr or p.stdout)[-400:])
            elif ref['fingerprint'] != last:
                diff = {k: (last.get(k), ref['fingerprint'].get(k)) for k in ref['fingerprint'] if last.get(k) != ref['fingerprint'].get(k)}
                hooks = [r['hook'] for r in case['runs']]
                prev = next((h for h in reversed(hooks[:-1]) if h != hooks[-1]), None)
                fail('stale-or-foreign-cache:%s-after-%s' % (hooks[-1], prev), 'with caches -> %r, without -> %r (key: with, without) %r' % (
                    hooks, hooks[-1], diff))
        hooks = [r['hook'] for r in case['runs']]
        nontriv = any(a != b for a, b in zip(hooks, hooks[1:])) or changed
        return {'fails': fails, 'nontrivial': nontriv, 'evals': evals,
                'classes': ['history', 'runs:%d' % len(hooks), 'edits' if changed else 'no-edits', 'last:' + hooks[-1]]}
    finally:
        shutil.rmtree(root, ignore_errors=True)
