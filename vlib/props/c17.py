"""C17 — configurations are memoised, comparable and validated the same way
every time.

Domain: creation histories (0..6 constructions) followed by a final
construction, every keyword value drawn from per-option pools of valid values,
invalid values and look-alikes of valid ones (1 for True, 2 for the IntEnum
member DEFAULT, list vs tuple, dict vs FrozenDict ...), keyword order permuted.

Oracle: (a) fresh-process differential - the outcome class and read-back of the
final construction after the history equals the one in a sibling fork that runs
only the final construction; (b) an independent validity model of the
documented option types; (c) algebraic laws on every configuration created
(identity under permutation, eq/hash coherence, read-back, kwargs round trip).
"""
import itertools

from hypothesis import strategies as st

from vlib import isolate

import beartype  # noqa: F401  pre-imported (not used) so that forked children do not pay the import cost
import beartype.roar  # noqa: F401

PID = 'C17'
LEVEL = 'exploration'
BUDGET = {'quick': 900, 'thorough': 40000}
CAP_S = {'quick': 140, 'thorough': 2400}
MAX_SHARDS = 3   # fork throughput of this sandbox (~80/s) does not scale with processes
RULE = ('case = history of <=6 BeartypeConf(**kw) calls + a final one, each kw from per-option pools '
        '(valid / invalid / look-alike), run in a forked pristine process and compared with a fork that '
        'runs only the final call; the three deprecated option spellings are part of the domain (modelled as the option they were renamed to); non-trivial = history holds a value that is == but not identical '
        '(or of another type) to a later one for the same option, or the final call sets >=3 non-default options. In addition the '
        'finite part of the domain is enumerated, not sampled: every (option, pool value incl. falsy junk) pair alone in a fresh '
        'process and every ordered pair of distinct valid values of one option back to back (quick and thorough), and every invalid / look-alike value right after every valid one of the same option (thorough)')
ASSUMPTIONS = [
    'documented adjustment: when BEARTYPE_IS_COLOR is set (part of the generated case) it overrides is_color',
    'validity model: bool options accept exactly bool; enums exactly their members; violation types None or Exception subclasses; '
    'warning_cls None or Warning subclass; hint_overrides FrozenDict; skip names a collection of identifiers',
    'a list for claw_skip_package_names may be accepted or rejected with BeartypeConfParamException (documented type is a collection); anything else is a leak',
]

# ---------------------------------------------------------------- value pools
# tokens are JSON strings; decode() maps them to objects inside the child.


class _UserExc(Exception):
    pass


class _UserWarn(UserWarning):
    pass


def _objects():
    from beartype import (BeartypeConf, BeartypeStrategy, BeartypeViolationVerbosity,
                          BeartypeDecorPlace, FrozenDict)
    from beartype.roar import BeartypeDoorHintViolation, BeartypeClawDecorWarning
    return {
        'True': True, 'False': False, 'None': None, '1': 1, '0': 0, '1.0': 1.0, '0.0': 0.0,
        '2': 2, '3': 3, "'True'": 'True', '[]': [], "'O1'": 'O1', "''": '', "b''": b'', 'fs()': frozenset(),
        'S.O0': BeartypeStrategy.O0, 'S.O1': BeartypeStrategy.O1, 'S.Ologn': BeartypeStrategy.Ologn,
        'S.On': BeartypeStrategy.On,
        'V.MIN': BeartypeViolationVerbosity.MINIMAL, 'V.DEF': BeartypeViolationVerbosity.DEFAULT,
        'V.MAX': BeartypeViolationVerbosity.MAXIMAL,
        'P.FIRST': BeartypeDecorPlace.FIRST, 'P.LAST': BeartypeDecorPlace.LAST,
        'P.LBDH': BeartypeDecorPlace.LAST_BEFORE_DECOR_HOSTILE,
        'ValueError': ValueError, 'UserWarning': UserWarning, 'UserExc': _UserExc, 'UserWarn': _UserWarn,
        'DoorViol': BeartypeDoorHintViolation, 'ClawWarn': BeartypeClawDecorWarning,
        'KeyboardInterrupt': KeyboardInterrupt, 'int': int, "'ValueError'": 'ValueError',
        'ValueError()': ValueError('x'),
        '()': (), "('a',)": ('a',), "('a.b','c')": ('a.b', 'c'), "('c','a.b')": ('c', 'a.b'),
        "frozenset(a)": frozenset(('a',)), "['a']": ['a'], "('1a',)": ('1a',), "(1,)": (1,),
        "'a.b'": 'a.b', "{'a'}": {'a'},
        'FD()': FrozenDict(), 'FD(int:float)': FrozenDict({int: float}),
        'FD(float:float|int)': FrozenDict({float: float | int}),
        'FD(float:str)': FrozenDict({float: str}),
        '{int:str}': {int: str}, '{}': {},
        # unequal values with equal hashes (hash(-1) == hash(-2) in CPython, and Literal / Annotated / tuple hashes are functions
        # of their members' hashes): a memo keyed by hash alone conflates them
        'FD(int:Lit-1)': FrozenDict({int: __import__('typing').Literal[-1]}), 'FD(int:Lit-2)': FrozenDict({int: __import__('typing').Literal[-2]}),
        "('p-1',)": ('p_1',), "('p-2',)": ('p_2',),
    }


BOOL_OK = ['True', 'False']
BOOL_BAD = ['1', '0', '1.0', '0.0', "'True'", 'None', '[]', "''", '()']
EXC_OK = ['None', 'ValueError', 'UserWarning', 'UserExc', 'UserWarn', 'DoorViol']
# every invalid pool holds falsy junk too (0, False, 0.0, '', (), [], {}): validation by truthiness instead of by type lets it through
FALSY = ['0', 'False', '0.0', "''", "b''", '()', 'fs()', '[]', '{}']
EXC_BAD = ['KeyboardInterrupt', 'int', "'ValueError'", 'ValueError()', '1'] + FALSY
PLACE_OK = ['P.FIRST', 'P.LAST', 'P.LBDH']
PLACE_BAD = ['1', "'O1'", 'None', 'S.O1'] + FALSY

POOLS = {
    # option: (valid tokens, invalid tokens, either-way tokens)
    'claw_decor_place_func': (PLACE_OK, PLACE_BAD, []),
    'claw_decor_place_type': (PLACE_OK, PLACE_BAD, []),
    'claw_is_pep526': (BOOL_OK, BOOL_BAD, []),
    'claw_skip_package_names': (['()', "('a',)", "('a.b','c')", "('c','a.b')", 'frozenset(a)'],
                                ["('1a',)", '(1,)', "'a.b'", '1', 'None'], ["['a']", "{'a'}"]),
    'hint_overrides': (['FD(int:Lit-1)', 'FD(int:Lit-2)', 'FD()', 'FD(int:float)', 'FD(float:float|int)', 'FD(float:str)'],
                       ['{int:str}', '{}', '[]', 'None', '1', '0', "''", '()'], []),
    'is_color': (['True', 'False', 'None'], ['1', '0', "'True'", '1.0', "''", '()', '0.0'], []),
    'is_debug': (BOOL_OK, BOOL_BAD, []),
    'is_pep484_tower': (BOOL_OK, BOOL_BAD, []),
    'is_pep557_fields': (BOOL_OK, BOOL_BAD, []),
    'is_random': (BOOL_OK, BOOL_BAD, []),
    'strategy': (['S.O0', 'S.O1', 'S.Ologn', 'S.On'], ["'O1'", '1', 'None', 'V.DEF'] + FALSY, []),
    'violation_door_type': (EXC_OK, EXC_BAD, []),
    'violation_param_type': (EXC_OK, EXC_BAD, []),
    'violation_return_type': (EXC_OK, EXC_BAD, []),
    'violation_type': (EXC_OK, EXC_BAD, []),
    'violation_verbosity': (['V.MIN', 'V.DEF', 'V.MAX'], ['1', '2', '3', '1.0', "'O1'", 'None', 'True'] + FALSY, []),
    'warning_cls_on_decorator_exception': (['None', 'UserWarning', 'UserWarn', 'ClawWarn'],
                                           ['ValueError', "'True'", '1', 'int'] + FALSY, []),
}
OPTIONS = sorted(POOLS)
# deprecated spellings, documented to be passed on as the option they were renamed to (None = not passed)
ALIAS_OF = {'claw_decoration_position_funcs': 'claw_decor_place_func', 'claw_decoration_position_types': 'claw_decor_place_type',
            'is_check_pep557': 'is_pep557_fields'}
ALIASES_OF = {new: old for old, new in ALIAS_OF.items()}


def _canon(kw):
    """Keyword list with deprecated option names replaced by the names they were renamed to (the model speaks new names only)."""
    return [[ALIAS_OF.get(o, o), v] for o, v in kw]


def _pool(opt):
    ok, bad, either = POOLS[ALIAS_OF.get(opt, opt)]
    if opt in ALIAS_OF:   # None means "not passed" for a deprecated spelling
        ok, bad, either = ([t for t in pool if t != 'None'] for pool in (ok, bad, either))
    return ok, bad, either
DEFAULT_TOKEN = {
    'claw_decor_place_func': 'P.LBDH', 'claw_decor_place_type': 'P.LAST', 'claw_is_pep526': 'True',
    'claw_skip_package_names': '()', 'hint_overrides': 'FD()', 'is_debug': 'False',
    'is_pep484_tower': 'False', 'is_pep557_fields': 'False', 'is_random': 'True', 'strategy': 'S.O1',
    'violation_door_type': 'None', 'violation_param_type': 'None', 'violation_return_type': 'None',
    'violation_type': 'None', 'violation_verbosity': 'V.DEF',
}


@st.composite
def _kw_strategy(draw, max_opts):
    """One keyword set: the number of invalid values is drawn first (none / one / two), so that a single invalid value is
    usually surrounded by valid ones (an independent 25 % per option made half of all constructions invalid and hid which
    option let a bad value through)."""
    opts = draw(st.lists(st.sampled_from(OPTIONS), min_size=0, max_size=max_opts, unique=True))
    nbad = min(len(opts), draw(st.sampled_from([0, 0, 0, 1, 1, 1, 2])))
    bad_at = set(draw(st.permutations(range(len(opts))))[:nbad]) if nbad else set()
    kw = []
    for i, o in enumerate(opts):
        if o in ALIASES_OF and draw(st.integers(0, 3)) == 0:
            o = ALIASES_OF[o]
        ok, bad, either = _pool(o)
        kw.append([o, draw(st.sampled_from(bad + either if i in bad_at else ok))])
    return kw


@st.composite
def _case(draw, tier):
    max_opts = 4 if tier == 'quick' else 6
    final = draw(_kw_strategy(max_opts))
    nhist = draw(st.integers(0, 6))
    hist = []
    for _ in range(nhist):
        mode = draw(st.integers(0, 3))
        if mode == 0 or not final:
            hist.append(draw(_kw_strategy(max_opts)))
        else:
            # look-alike history: the final call with some values swapped for other pool members
            kw = []
            for o, v in final:
                ok, bad, either = _pool(o)
                if draw(st.booleans()):
                    v = draw(st.sampled_from(ok + bad + either))
                kw.append([o, v])
            if draw(st.booleans()):
                kw = kw[::-1]
            hist.append(kw)
    return {'history': hist, 'final': final, 'perm': draw(st.integers(0, 23)),
            'env_color': draw(st.sampled_from([None, None, None, 'True', 'False', 'None']))}


def strategy(tier):
    return _case(tier)


# ---------------------------------------------------------------- the model
def _valid(opt, tok):
    ok, bad, either = _pool(opt)
    if tok in ok:
        return True
    if tok in bad:
        return False
    return None


def _model_outcome(kw):
    """True = must succeed, False = must raise BeartypeConfParamException, None = either."""
    res = True
    d = dict(kw)
    for o, v in kw:
        r = _valid(o, v)
        if r is False:
            return False
        if r is None:
            res = None
    # documented cross-option rule: tower conflicts with an explicit different float override
    if d.get('is_pep484_tower') == 'True' and d.get('hint_overrides') == 'FD(float:str)':
        return False
    return res


# ---------------------------------------------------------------- the child
def _construct(objs, kw):
    from beartype import BeartypeConf
    from beartype.roar import BeartypeConfParamException
    import warnings
    kwargs = {o: objs[v] for o, v in kw}
    try:
        with warnings.catch_warnings():
            warnings.simplefilter('ignore')
            c = BeartypeConf(**kwargs)
        return 'ok', c, kwargs
    except BeartypeConfParamException:
        return 'param', None, kwargs
    except Exception as e:  # leak
        import traceback
        where = '?'
        for fr in traceback.extract_tb(e.__traceback__):
            if '/beartype/' in fr.filename:
                where = fr.filename.rsplit('/beartype/', 1)[1] + ':' + fr.name
        return 'leak:%s@%s' % (type(e).__name__, where), None, kwargs


def _readback(c):
    out = {}
    for o in OPTIONS:
        v = getattr(c, o)
        out[o] = '%s:%r' % (type(v).__name__, v)
    return out


def _expected_readback(objs, kw, env_color=None):
    """Read-back model from the documentation (option -> (type name, value)), None = unspecified."""
    from beartype.roar import (BeartypeDoorHintViolation, BeartypeCallHintParamViolation,
                               BeartypeCallHintReturnViolation)
    d = {o: objs[v] for o, v in kw}
    exp = {}
    for o in OPTIONS:
        if o in d:
            exp[o] = d[o]
        elif o in DEFAULT_TOKEN:
            exp[o] = objs[DEFAULT_TOKEN[o]]
    if env_color is not None:
        exp['is_color'] = {'True': True, 'False': False, 'None': None}[env_color]
    elif 'is_color' not in d:
        exp['is_color'] = None
    vt = d.get('violation_type')
    for o, dflt in (('violation_door_type', BeartypeDoorHintViolation),
                    ('violation_param_type', BeartypeCallHintParamViolation),
                    ('violation_return_type', BeartypeCallHintReturnViolation)):
        if d.get(o) is None:
            exp[o] = vt or dflt
    if 'warning_cls_on_decorator_exception' not in d:
        exp['warning_cls_on_decorator_exception'] = None
    if d.get('is_pep484_tower'):
        exp.pop('hint_overrides', None)  # folded; checked separately
    return exp


def _child(case):
    import os
    if case.get('env_color') is None:
        os.environ.pop('BEARTYPE_IS_COLOR', None)
    else:
        os.environ['BEARTYPE_IS_COLOR'] = case['env_color']
    objs = _objects()
    from beartype import BeartypeConf
    import warnings
    fails = []
    created = []  # (kw, conf)
    seq = list(case['history']) + [case['final']]
    outcomes = []
    for idx, raw in enumerate(seq):
        tag, c, kwargs = _construct(objs, raw)
        kw = _canon(raw)
        outcomes.append(tag)
        m = _model_outcome(kw)
        opts = ','.join(sorted(o for o, v in kw if _valid(o, v) is not True)) or '-'
        if tag.startswith('leak'):
            fails.append({'sig': tag, 'detail': 'kw=%r raised %s (not-valid options: %s)' % (kw, tag, opts)})
            continue
        if m is True and tag != 'ok':
            fails.append({'sig': 'valid-rejected:' + ','.join(sorted(o for o, v in kw)),
                          'detail': 'kw=%r rejected though every value is documented valid' % (kw,)})
        if m is False and tag == 'ok':
            bad = sorted(o for o, v in kw if _valid(o, v) is False)
            hist_dep = idx > 0
            fails.append({'sig': ('invalid-accepted-after-history' if hist_dep else
                                  'invalid-accepted-fresh:%s' % ','.join(bad or ['tower-conflict'])),
                          'detail': 'kw=%r accepted (after %d earlier constructions) though invalid: %r' % (
                              kw, idx, [(o, v) for o, v in kw if _valid(o, v) is False])})
        if tag != 'ok':
            continue
        created.append((kw, c, kwargs))
        # read-back
        if m is True:
            exp = _expected_readback(objs, kw, case.get('env_color'))
            for o, ev in exp.items():
                gv = getattr(c, o)
                if not (type(gv) is type(ev) and gv == ev):
                    fails.append({'sig': 'readback:' + o,
                                  'detail': 'kw=%r option %s reads back %r, expected %r' % (kw, o, gv, ev)})
            if dict(kw).get('is_pep484_tower') == 'True':
                ho = c.hint_overrides
                if not (ho.get(float) == (float | int) and ho.get(complex) == (complex | float | int)):
                    fails.append({'sig': 'readback:tower', 'detail': 'kw=%r hint_overrides=%r' % (kw, ho)})
            # same kwargs in another order -> same object
            items = list(kwargs.items())
            perms = list(itertools.islice(itertools.permutations(items), 0, 24))
            p = perms[case['perm'] % len(perms)]
            with warnings.catch_warnings():
                warnings.simplefilter('ignore')
                try:
                    c2 = BeartypeConf(**dict(p))
                except Exception as e:
                    c2 = e
            if c2 is not c:
                fails.append({'sig': 'permute-not-identical', 'detail': 'kw=%r permuted -> %r' % (kw, c2)})
            # kwargs round trip
            with warnings.catch_warnings():
                warnings.simplefilter('ignore')
                try:
                    c3 = BeartypeConf(**c.kwargs)
                except Exception as e:
                    c3 = e
            if c3 is not c:
                fails.append({'sig': 'kwargs-roundtrip',
                              'detail': 'BeartypeConf(**c.kwargs) is not c for kw=%r (got %r)' % (kw, c3)})
    # eq / hash coherence over everything created
    for (kw1, c1, k1), (kw2, c2, k2) in itertools.combinations(created, 2):
        if _model_outcome(kw1) is not True or _model_outcome(kw2) is not True:
            continue
        f1 = {o: DEFAULT_TOKEN.get(o, '<unset>') for o in OPTIONS}
        f2 = dict(f1)
        f1.update(dict(kw1))
        f2.update(dict(kw2))
        same_args = f1 == f2
        eq = (c1 == c2)
        if same_args and c1 is not c2:
            fails.append({'sig': 'equal-args-distinct-objects', 'detail': '%r vs %r' % (kw1, kw2)})
        if eq and hash(c1) != hash(c2):
            fails.append({'sig': 'eq-hash-mismatch', 'detail': '%r vs %r' % (kw1, kw2)})
        if eq != (c2 == c1) or (c1 != c2) == eq:
            fails.append({'sig': 'eq-incoherent', 'detail': '%r vs %r' % (kw1, kw2)})
        if not same_args and eq:
            # unspecified when the two differ only through documented normalisation
            n1, n2 = _readback(c1), _readback(c2)
            if n1 != n2:
                fails.append({'sig': 'differing-args-equal', 'detail': '%r == %r but read back differently' % (kw1, kw2)})
        if not same_args and c1 is c2:
            n1 = _expected_readback(objs, kw1, case.get('env_color'))
            n2 = _expected_readback(objs, kw2, case.get('env_color'))
            if any(not (type(n1[o]) is type(n2.get(o)) and n1[o] == n2.get(o)) for o in n1):
                fails.append({'sig': 'differing-args-same-object', 'detail': '%r vs %r' % (kw1, kw2)})
    final_tag = outcomes[-1]
    final_rb = _readback(created[-1][1]) if final_tag == 'ok' else None
    return {'fails': fails, 'final': final_tag, 'final_rb': final_rb, 'outcomes': outcomes}


def _lookalike(case):
    fin = dict(_canon(case['final']))
    for kw in case['history']:
        for o, v in _canon(kw):
            if o in fin and fin[o] != v:
                return True
    return False


def run_case(case):
    a = isolate.call(_child, case, timeout=60)
    if a.get('timeout'):
        return {'fails': [{'sig': 'timeout', 'detail': 'history did not finish in 60 s'}], 'nontrivial': True}
    fails = list(a['fails'])
    evals = len(case['history']) + 1
    # The fresh-process differential costs a second fork; it is run for every case whose final
    # outcome the validity model leaves open and for a deterministic third of the others (the
    # model itself already pins the fresh outcome of those).
    if case['history'] and (_model_outcome(_canon(case['final'])) is None or case['perm'] % 3 == 0):
        b = isolate.call(_child, {'history': [], 'final': case['final'], 'perm': case['perm'],
                                  'env_color': case.get('env_color')}, timeout=60)
        evals += 1
        if (a['final'], a['final_rb']) != (b['final'], b['final_rb']):
            opts = ','.join(sorted(o for o, v in case['final'] if _valid(o, v) is not True)) or '-'
            fails.append({'sig': 'history-dependent-outcome',
                          'detail': 'final=%r fresh -> %s %s; after history %r -> %s %s' % (
                              case['final'], b['final'], b['final_rb'], case['history'], a['final'], a['final_rb'])})
    nontriv = _lookalike(case) or len(case['final']) >= 3
    classes = ['final:' + a['final'].split(':')[0], 'hist%d' % len(case['history'])]
    if _lookalike(case):
        classes.append('lookalike-history')
    # de-duplicate signatures inside one case
    seen, out = set(), []
    for f in fails:
        if f['sig'] not in seen:
            seen.add(f['sig'])
            out.append(f)
    return {'fails': out, 'nontrivial': nontriv, 'classes': classes, 'evals': evals}


def extra_engine(tier, seed, agg, safe_run_case):
    """Finite part of the domain, enumerated instead of sampled: every (option, pool value) pair as the only keyword of a
    fresh process, and - for every option - each invalid / look-alike value constructed right after each valid one (the memo
    is then warm with an equal-comparing or unrelated valid configuration)."""
    import sys
    mod = sys.modules[__name__]
    n = 0
    for opt in OPTIONS:
        ok, bad, either = POOLS[opt]
        for tok in ok + bad + either:
            safe_run_case(mod, {'history': [], 'final': [[opt, tok]], 'perm': 0, 'env_color': None}, agg)
            n += 1
        if opt in ALIASES_OF:
            # the deprecated spelling of the option: every value alone, and every valid value after / before the new spelling
            old = ALIASES_OF[opt]
            for tok in [t for t in ok + bad + either if t != 'None']:
                safe_run_case(mod, {'history': [], 'final': [[old, tok]], 'perm': 0, 'env_color': None}, agg)
                n += 1
            for tok in ok:
                safe_run_case(mod, {'history': [[[opt, tok]]], 'final': [[old, tok]], 'perm': 0, 'env_color': None}, agg)
                safe_run_case(mod, {'history': [[[old, tok]]], 'final': [[opt, tok]], 'perm': 0, 'env_color': None}, agg)
                n += 2
        # every ordered pair of distinct valid values of one option, one right after the other (a memo that conflates two
        # valid configurations answers the second with the first)
        for a in ok:
            for b in ok:
                if a != b:
                    safe_run_case(mod, {'history': [[[opt, a]]], 'final': [[opt, b]], 'perm': 0, 'env_color': None}, agg)
                    n += 1
        if tier == 'thorough':
            for good in ok:
                for tok in bad + either:
                    safe_run_case(mod, {'history': [[[opt, good]]], 'final': [[opt, tok]], 'perm': 0, 'env_color': None}, agg)
                    n += 1
    agg.extra['enumerated_single_option_cases'] = n
