"""C11 - only beartype's own exceptions for bad hints; user exceptions pass through."""
import collections.abc as cabc
import sys
import traceback
import typing
import warnings

from hypothesis import strategies as st

from beartype import beartype
from beartype.door import TypeHint, die_if_unbearable, is_bearable, is_subhint
from beartype.roar import (BeartypeCallException, BeartypeDecorException, BeartypeException, BeartypeHintViolation,
                           BeartypeWarning)

from vlib import hints as H

PID = 'C11'
LEVEL = 'exploration'
BUDGET = {'quick': 4800, 'thorough': 200000}
CAP_S = {'quick': 150, 'thorough': 3000}
# thorough tier only: 600 s x 8 coverage-guided libFuzzer campaigns over the same strategy and oracle (vlib/fuzz_driver.py)
FUZZ = {'thorough': (600, 8)}
RULE = ('three case families. valid: a supported hint from the shared grammar with an object violating it at a generated path - whatever the '
        'violation path raises must be a public beartype exception, and so must is_subhint (both orders) and TypeHint == between that hint and a second one (a widening of it or unrelated). junk: a hint-construction program (recursive: typing factories subscripted by junk leaves - ints, strings '
        'that do not parse or resolve, unhashables, slot wrappers, builtins, modules, nested tuples, wrong arity, special forms such as '
        'ClassVar/Final/Required/Unpack/ParamSpec/TypeVarTuple/Concatenate, deep legal nesting up to depth 400) evaluated to an object that '
        'is then passed as a hint to @beartype (parameter, return and the return of a binary dunder method; decoration and call), is_bearable, die_if_unbearable, TypeHint and '
        'is_subhint (both sides); construction failures inside typing itself are discarded. Validity oracle on whatever escapes: a public '
        'beartype.roar.BeartypeException subclass (BeartypeDecorException while decorating, BeartypeCallException or a violation when '
        'calling an already built wrapper), warnings are BeartypeWarning subclasses (or DeprecationWarning raised by typing). '
        'user: an exception object raised by the wrapped callable, by an Is[...] predicate or by an __instancecheck__ hook must come back '
        'as the identical object. non-trivial = something was raised or the program contains a malformed subscription / junk leaf; '
        'distinct by canonical JSON')
ASSUMPTIONS = [
    'exceptions raised by typing while building a malformed hint are the generator\'s, not beartype\'s, and are discarded before the call',
    'a hint object whose own __repr__/__eq__/__hash__ raises is user code; such hints are not generated in the junk family',
]

T = typing.TypeVar('T')
P = typing.ParamSpec('P')
Ts = typing.TypeVarTuple('Ts')


class _Plain:
    pass


LEAVES = {
    'int': int, 'str': str, 'VBase': H.VBase, 'None': None, '3': 3, '0': 0, '1.5': 1.5, "b'x'": b'x', 'True': True,
    "'int'": 'int', "'NoSuchName'": 'NoSuchName', "'not a type!'": 'not a type!', "''": '', "'list[int'": 'list[int',
    "'a.b.c'": 'a.b.c', "'os.path'": 'os.path', "'typing.List[NoSuch]'": 'typing.List[NoSuch]',
    '[]': [], '{}': {}, 'set()': set(), '[int]': [int], '{int: str}': {int: str},
    'int.__add__': int.__add__, 'str.join': str.join, 'len': len, 'lambda': (lambda x: x), 'sys': sys, 'object()': object(),
    '...': ..., 'NotImplemented': NotImplemented, 'instance': _Plain(), 'enum member': H.VColor.RED, 'property': property(),
    'T': T, 'P': P, 'Ts': Ts, 'P.args': P.args, 'Any': typing.Any,
    'ClassVar': typing.ClassVar, 'Final': typing.Final, 'Required': typing.Required, 'NotRequired': typing.NotRequired,
    'Unpack': typing.Unpack, 'Concatenate': typing.Concatenate, 'Literal': typing.Literal, 'Annotated': typing.Annotated,
    'Union': typing.Union, 'Optional': typing.Optional, 'Generic': typing.Generic, 'Protocol': typing.Protocol,
    'Self': typing.Self, 'Never': typing.Never, 'NoReturn': typing.NoReturn, 'LiteralString': typing.LiteralString,
    'TypeAlias': typing.TypeAlias, 'TypeGuard': typing.TypeGuard, 'Callable': typing.Callable, 'Tuple': typing.Tuple,
    'tuple': tuple, 'list': list, 'dict': dict, 'type': type, 'Type': typing.Type, 'ForwardRef': typing.ForwardRef('NoSuchName2'),
    'ForwardRef bad': typing.ForwardRef('int'), 'NamedTuple': typing.NamedTuple, 'TypedDict': typing.TypedDict,
    'NewType': typing.NewType, 'cabc.Callable': cabc.Callable, 'float': float, 'complex': complex,
    'ForwardRef module=3': typing.ForwardRef('NoSuchName3', module=3), 'ForwardRef is_class': typing.ForwardRef('int', is_class=True),
}
FACTORIES = {
    'list': list, 'List': typing.List, 'dict': dict, 'Dict': typing.Dict, 'tuple': tuple, 'Tuple': typing.Tuple, 'set': set,
    'frozenset': frozenset, 'type': type, 'Type': typing.Type, 'Union': typing.Union, 'Optional': typing.Optional,
    'Literal': typing.Literal, 'Annotated': typing.Annotated, 'ClassVar': typing.ClassVar, 'Final': typing.Final,
    'Required': typing.Required, 'Unpack': typing.Unpack, 'Callable': typing.Callable, 'cabc.Callable': cabc.Callable,
    'Sequence': cabc.Sequence, 'Mapping': cabc.Mapping, 'Iterable': cabc.Iterable, 'Generator': cabc.Generator,
    'Concatenate': typing.Concatenate, 'TypeGuard': typing.TypeGuard, 'Generic': typing.Generic, 'Counter': typing.Counter,
    'VMyList': H.VMyList, 'VBox': H.VBox, 'Coroutine': cabc.Coroutine, 'deque': typing.Deque, 'ItemsView': cabc.ItemsView,
}


def programs(depth):
    leaf = st.sampled_from(sorted(LEAVES)).map(lambda n: ['leaf', n])
    if depth <= 0:
        return leaf
    sub = st.deferred(lambda: programs(depth - 1))
    comp = st.one_of(
        st.tuples(st.sampled_from(sorted(FACTORIES)), st.lists(sub, min_size=1, max_size=3)).map(lambda t: ['sub', t[0], t[1]]),
        st.tuples(st.sampled_from(sorted(FACTORIES)), st.lists(sub, min_size=1, max_size=3)).map(lambda t: ['sub', t[0], t[1]]),
        st.lists(sub, min_size=0, max_size=3).map(lambda l: ['tuple', l]),
        st.lists(sub, min_size=2, max_size=3).map(lambda l: ['or', l]),
        st.tuples(sub, st.sampled_from(['...', 'list-args', 'newtype', 'typevar-bound', 'typevar-constraints'])).map(
            lambda t: ['special', t[1], t[0]]),
    )
    return st.integers(0, 3).flatmap(lambda i: leaf if i == 0 else comp)


def evaluate(p):
    k = p[0]
    if k == 'leaf':
        return LEAVES[p[1]]
    if k == 'sub':
        args = tuple(evaluate(a) for a in p[2])
        return FACTORIES[p[1]][args if len(args) != 1 else args[0]]
    if k == 'tuple':
        return tuple(evaluate(a) for a in p[1])
    if k == 'or':
        vals = [evaluate(a) for a in p[1]]
        out = vals[0]
        for v in vals[1:]:
            out = out | v
        return out
    if k == 'special':
        inner = evaluate(p[2])
        if p[1] == '...':
            return tuple[inner, ...]
        if p[1] == 'newtype':
            return typing.NewType('VJunkNewType', inner)
        if p[1] == 'typevar-bound':
            return typing.TypeVar('VJunkTB', bound=inner)
        if p[1] == 'typevar-constraints':
            return typing.TypeVar('VJunkTC', inner, int)
        return typing.Callable[[inner], inner]
    if k == 'deep':
        h = int
        fac = {'list': list, 'tuple': tuple, 'dict': dict, 'Sequence': cabc.Sequence, 'Optional': typing.Optional}[p[1]]
        for i in range(p[2]):
            if p[1] == 'dict':
                h = fac[str, h]
            elif p[1] == 'Optional':
                h = list[fac[h]]
            else:
                h = fac[h]
        return h
    raise ValueError(p)


class UserBoom(Exception):
    pass


class UserBaseBoom(BaseException):
    pass


USER_EXC = {'ValueError': ValueError, 'KeyError': KeyError, 'TypeError': TypeError, 'AttributeError': AttributeError,
            'RecursionError': RecursionError, 'StopIteration': StopIteration, 'UserBoom': UserBoom, 'UserBaseBoom': UserBaseBoom,
            'AssertionError': AssertionError, 'NameError': NameError}


CONFS = ['default', 'default', 'tower', 'overrides', 'On', 'norandom', 'userviolation', 'warnviolation', 'debug']


def _conf(token):
    """Configurations the junk / valid families run under (the entry points are the same for every configuration; an option
    may route a hint through code the default configuration never reaches)."""
    from beartype import BeartypeConf, BeartypeStrategy, FrozenDict
    if token in (None, 'default'):
        return BeartypeConf()
    return {'tower': lambda: BeartypeConf(is_pep484_tower=True),
            'overrides': lambda: BeartypeConf(hint_overrides=FrozenDict({bytes: typing.Union[bytes, str]})),
            'On': lambda: BeartypeConf(strategy=BeartypeStrategy.On),
            'norandom': lambda: BeartypeConf(is_random=False),
            'userviolation': lambda: BeartypeConf(violation_type=UserViolationError),
            'warnviolation': lambda: BeartypeConf(violation_type=UserViolationWarning),
            'debug': lambda: BeartypeConf(is_debug=True)}[token]()


class UserViolationError(Exception):
    pass


class UserViolationWarning(UserWarning):
    pass


@st.composite
def _case(draw, tier):
    if draw(st.integers(0, 5)) == 0:
        return {'family': 'user', 'exc': draw(st.sampled_from(sorted(USER_EXC))),
                'site': draw(st.sampled_from(['body', 'validator', 'instancecheck', 'validator-nested', 'instancecheck-nested'])),
                'ep': draw(st.sampled_from(['is_bearable', 'die_if_unbearable', 'param', 'return']))}
    if draw(st.integers(0, 7)) == 0:
        return {'family': 'fwd', 'shape': draw(st.sampled_from(['type', 'Type', 'list', 'opt', 'dict', 'tuple', 'union', 'whole', 'bare'])), 'binding': draw(st.sampled_from(FWD_BINDINGS)),
                'obj': draw(st.sampled_from(['class', 'intclass', 'instance', 'int', 'list', 'listobj', 'none', 'dict', 'tuple'])),
                'calls': draw(st.sampled_from([3, 2, 1])), 'conf': draw(st.sampled_from(CONFS))}
    if draw(st.integers(0, 4)) == 0:
        # valid hint from the shared grammar + an object violating it somewhere: rejections must be beartype exceptions too
        node, _n = H.avoid_known_shapes(draw(H.hint_nodes(draw(st.sampled_from([1, 2, 2, 3])))))
        v = draw(H.violating(node))
        if v is not None:
            # a second hint for is_subhint(): derived from the first one (a container ABC / base class / tuple form away) or unrelated
            from vlib.props import c19
            if draw(st.integers(0, 3)):
                other = H.merge_nested_annotated(draw(c19.widen(node)))
            else:
                other, _n = H.avoid_known_shapes(draw(H.hint_nodes(draw(st.sampled_from([0, 1, 2])))))
            return {'family': 'valid', 'hint': node, 'value': v[0], 'conf': draw(st.sampled_from(CONFS)), 'hint2': other}
    if draw(st.integers(0, 150)) == 0:
        # deep-but-legal nesting (RecursionError must not leak); expensive, hence rare - depth 400 is exercised by the replay corpus
        prog = ['deep', draw(st.sampled_from(['list', 'tuple', 'dict', 'Sequence', 'Optional'])),
                draw(st.sampled_from([30, 100, 100, 250]))]
        return {'family': 'junk', 'program': prog, 'obj': 'int'}
    d = draw(st.sampled_from([0, 1, 1, 2, 2, 3]))
    return {'family': 'junk', 'program': draw(programs(d)), 'obj': draw(st.sampled_from(['int', 'str', 'none', 'list'])),
            'conf': draw(st.sampled_from(CONFS))}


def strategy(tier):
    return _case(tier)


def _where(e):
    w = '?'
    for fr in traceback.extract_tb(e.__traceback__):
        if '/beartype/' in fr.filename:
            w = fr.filename.rsplit('/beartype/', 1)[1] + ':' + fr.name
    return w


def _in_beartype(e):
    return any('/beartype/' in fr.filename for fr in traceback.extract_tb(e.__traceback__))


def _public_beartype(e, base=BeartypeException):
    return isinstance(e, base) and not type(e).__name__.startswith('_')


def _junk_score(p):
    if p[0] == 'leaf':
        return 0 if p[1] in ('int', 'str', 'VBase', 'None', 'float', 'complex', 'Any') else 1
    if p[0] == 'deep':
        return 1
    return sum(_junk_score(a) for a in (p[2] if p[0] == 'sub' else p[1] if p[0] in ('tuple', 'or') else [p[2]]))


def run_junk(case):
    fails, seen, evals = [], set(), 0
    raised_any = False
    try:
        with warnings.catch_warnings():
            warnings.simplefilter('ignore')
            hint = evaluate(case['program'])
            try:
                hrepr = repr(hint)[:200]
            except Exception:
                hrepr = '<unreprable>'
    except BaseException:
        return {'fails': [], 'nontrivial': False, 'classes': ['discarded:typing-refused'], 'evals': 0,
                'extra': {'discarded_by_typing': 1}}
    obj = {'int': 7, 'str': 'x', 'none': None, 'list': [1, 'a']}[case['obj']]
    conf = _conf(case.get('conf'))
    bt = beartype(conf=conf)
    import contextlib
    import io

    def fail(ep, e, phase):
        sig = 'leak:%s:%s@%s' % (phase, type(e).__name__, _where(e))
        if sig not in seen:
            seen.add(sig)
            fails.append({'sig': sig, 'detail': 'hint=%s (program %r) ep=%s: %s: %s' % (
                hrepr, case['program'], ep, type(e).__name__, str(e)[:300])})

    def guard(ep, fn, phase, base=BeartypeException):
        nonlocal evals, raised_any
        evals += 1
        with warnings.catch_warnings(record=True) as wl:
            warnings.simplefilter('always')
            try:
                out = fn()
                err = None
            except BaseException as e:
                out, err = None, e
        for w in wl:
            if not issubclass(w.category, (BeartypeWarning, DeprecationWarning, UserViolationWarning)):
                sig = 'foreign-warning:%s' % w.category.__name__
                if sig not in seen:
                    seen.add(sig)
                    fails.append({'sig': sig, 'detail': 'hint=%s ep=%s warned %s: %s' % (hrepr, ep, w.category.__name__, str(w.message)[:200])})
        if err is not None:
            raised_any = True
            if isinstance(err, UserViolationError):
                return out, err    # the configured violation class
            if not _public_beartype(err, base) and not (base is not BeartypeException and isinstance(err, BeartypeHintViolation)):
                # exceptions that never entered beartype code (raised by typing while we call beartype's callee) do not count
                if _in_beartype(err) or isinstance(err, BeartypeException):
                    fail(ep, err, phase)
        return out, err
    guard('is_bearable', lambda: is_bearable(obj, hint, conf=conf), 'door')
    guard('die_if_unbearable', lambda: die_if_unbearable(obj, hint, conf=conf), 'door')
    guard('TypeHint', lambda: TypeHint(hint), 'door')
    guard('TypeHint.is_bearable', lambda: TypeHint(hint).is_bearable(obj, conf=conf), 'door')
    guard('is_subhint(h, int)', lambda: is_subhint(hint, int), 'door')
    guard('is_subhint(int, h)', lambda: is_subhint(int, hint), 'door')

    def fp(p):
        return None
    fp.__annotations__ = {'p': hint}

    def fr(p):
        return p
    fr.__annotations__ = {'return': hint}
    class _Dunder:
        def __add__(self, other):
            return 1
    _Dunder.__add__.__annotations__ = {'return': hint}

    def deco_dunder():
        _Dunder.__add__ = bt(_Dunder.__dict__['__add__'])
        return lambda o: _Dunder() + o
    d, err = guard('decorate-dunder-return', deco_dunder, 'decor', BeartypeDecorException)
    if err is None and d is not None:
        guard('call-dunder-return', lambda: d(obj), 'call', BeartypeCallException)
    for name, f in (('param', fp), ('return', fr)):
        deco, err = guard('decorate-' + name, lambda: bt(f), 'decor', BeartypeDecorException)
        if err is None and deco is not None:
            guard('call-' + name, lambda: deco(obj), 'call', BeartypeCallException)
    nontriv = raised_any or _junk_score(case['program']) > 0
    return {'fails': fails, 'nontrivial': nontriv, 'evals': evals,
            'classes': ['junk', 'raised' if raised_any else 'accepted', 'root:' + case['program'][0], 'conf:' + (case.get('conf') or 'default')]}


_UNIQ = [0]


def run_user(case):
    from typing import Annotated
    from beartype.vale import Is
    exc = USER_EXC[case['exc']]('from user code')
    _UNIQ[0] += 1

    def boom(x):
        if x == 1:
            raise exc
        return True
    # beartype keys caches by the repr of a hint: every case needs names of its own
    boom.__name__ = boom.__qualname__ = 'boom_%d' % _UNIQ[0]

    class Meta(type):
        def __instancecheck__(cls, inst):
            # raise only for the object under test: beartype probes isinstance() with other objects while decorating
            if inst == 1:
                raise exc
            return False
    Hooked = Meta('Hooked_%d' % _UNIQ[0], (), {})
    site, ep = case['site'], case['ep']
    if site == 'body':
        hint = int
    elif site == 'validator':
        hint = Annotated[int, Is[boom]]
    elif site == 'validator-nested':
        hint = list[Annotated[int, Is[boom]]]
    elif site == 'instancecheck':
        hint = Hooked
    else:
        hint = dict[str, Hooked]
    obj = {'body': 1, 'validator': 1, 'validator-nested': [1, 1], 'instancecheck': 1, 'instancecheck-nested': {'k': 1}}[site]
    fails = []
    try:
        with warnings.catch_warnings():
            warnings.simplefilter('ignore')
            if site == 'body':
                def f(p: int) -> int:
                    raise exc
                beartype(f)(1)
            elif ep == 'is_bearable':
                is_bearable(obj, hint)
            elif ep == 'die_if_unbearable':
                die_if_unbearable(obj, hint)
            elif ep == 'param':
                def g(p):
                    return None
                g.__annotations__ = {'p': hint}
                beartype(g)(obj)
            else:
                def h(p):
                    return p
                h.__annotations__ = {'return': hint}
                beartype(h)(obj)
        got = None
    except BaseException as e:
        got = e
    if got is not exc:
        fails.append({'sig': 'user-exception-not-propagated:%s' % site,
                      'detail': 'site=%s ep=%s raised %r inside user code, caller saw %r (%s)' % (
                          site, ep, exc, got, type(got).__name__)})
    return {'fails': fails, 'nontrivial': True, 'evals': 1, 'classes': ['user', 'site:' + site]}


def run_valid(case):
    hint = H.build(case['hint'])
    fails, seen = [], set()
    evals = 0
    conf = _conf(case.get('conf'))
    bt = beartype(conf=conf)

    def fp(p):
        return None
    fp.__annotations__ = {'p': hint}

    def fr(p):
        return p
    fr.__annotations__ = {'return': hint}
    with warnings.catch_warnings():
        warnings.simplefilter('ignore')
        try:
            dp, dr = bt(fp), bt(fr)
        except Exception as e:
            dp = dr = None
            if not _public_beartype(e):
                fails.append({'sig': 'leak:decor:%s@%s' % (type(e).__name__, _where(e)), 'detail': 'hint=%r: %r' % (hint, e)})
        calls = [('is_bearable', lambda o: is_bearable(o, hint, conf=conf)), ('die_if_unbearable', lambda o: die_if_unbearable(o, hint, conf=conf)),
                 ('TypeHint.die_if_unbearable', lambda o: TypeHint(hint).die_if_unbearable(o, conf=conf))]
        if dp is not None:
            calls += [('call-param', dp), ('call-return', dr)]
        if case.get('hint2') is not None:
            # the comparison API on the same hint: any answer or BeartypeDoorException is fine, anything else is a leak
            try:
                hint2 = H.build(case['hint2'])
            except Exception:
                hint2 = None
            if hint2 is not None:
                calls += [('is_subhint(h, h2)', lambda o: is_subhint(hint, hint2)), ('is_subhint(h2, h)', lambda o: is_subhint(hint2, hint)),
                          ('TypeHint(h) == TypeHint(h2)', lambda o: TypeHint(hint) == TypeHint(hint2))]
        for ep, fn in calls:
            evals += 1
            try:
                fn(H.realize(case['value']))
            except BaseException as e:
                if not _public_beartype(e) and not isinstance(e, UserViolationError):
                    sig = 'leak:violation-path:%s@%s' % (type(e).__name__, _where(e))
                    if sig not in seen:
                        seen.add(sig)
                        fails.append({'sig': sig, 'detail': 'hint=%s obj=%r ep=%s raised %s: %s' % (
                            H.describe(case['hint']), H.realize(case['value']), ep, type(e).__name__, str(e)[:300])})
    return {'fails': fails, 'nontrivial': True, 'evals': evals,
            'classes': ['valid-hint', 'root:' + case['hint'][0], 'conf:' + (case.get('conf') or 'default')]}


FWD_SHAPES = {'bare': "'Name'", 'type': "type['Name']", 'Type': "typing.Type['Name']", 'list': "list['Name']",
              'opt': "typing.Optional['Name']", 'dict': "dict[str, 'Name']", 'tuple': "tuple['Name', ...]", 'whole': "'list[Name]'",
              'union': "typing.Union['Name', int]"}
# (Hypothesis over-represents the first element of every sampled_from in rarely taken branches: the plain cases come last)
FWD_BINDINGS = ['alias-list', 'alias-union', 'alias-dict', 'newtype', 'int', 'module', 'str', 'none', 'undefined', 'class']


def run_fwd(case):
    """Forward references resolved at call time: a callable is decorated while the referenced name is undefined, the name is
    then bound (to a class, to a valid hint that is no class, to junk, or not at all) and the *same* wrapper is called several
    times - a referent cached by the first call must not turn later calls into leaks."""
    import types
    _UNIQ[0] += 1
    mod = types.ModuleType('c11fwd_%d' % _UNIQ[0])
    sys.modules[mod.__name__] = mod
    fails, seen, evals = [], set(), 0
    src = ('import typing\nfrom beartype import beartype\n'
           'def fp(p: %s): return p\n'
           'def fr(p) -> %s: return p\n' % (FWD_SHAPES[case['shape']], FWD_SHAPES[case['shape']]))
    try:
        exec(compile(src, '<c11fwd>', 'exec'), mod.__dict__)
        with warnings.catch_warnings():
            warnings.simplefilter('ignore')
            bt = beartype(conf=_conf(case.get('conf')))
            wrappers = []
            for name in ('fp', 'fr'):
                try:
                    wrappers.append((name, bt(mod.__dict__[name])))
                    evals += 1
                except BaseException as e:
                    if not _public_beartype(e, BeartypeDecorException):
                        fails.append({'sig': 'leak:decor:%s@%s' % (type(e).__name__, _where(e)), 'detail': '%s\n%r' % (src, e)})
            class Target:
                pass
            b = case['binding']
            if b != 'undefined':
                mod.Name = {'class': Target, 'alias-list': typing.List[int], 'alias-union': typing.Union[int, str],
                            'alias-dict': typing.Dict[str, int], 'newtype': typing.NewType('NT', int), 'int': 42, 'module': types,
                            'str': 'int', 'none': None}[b]
            obj = {'instance': Target(), 'class': Target, 'int': 3, 'intclass': int, 'list': [1], 'listobj': [Target()], 'none': None,
                   'dict': {'k': Target()}, 'tuple': (Target(),)}[case['obj']]
            for name, w in wrappers:
                for i in range(case['calls']):
                    evals += 1
                    try:
                        w(obj)
                    except BaseException as e:
                        if not _public_beartype(e) and not isinstance(e, UserViolationError):
                            sig = 'leak:call:%s@%s' % (type(e).__name__, _where(e))
                            if sig not in seen:
                                seen.add(sig)
                                fails.append({'sig': sig, 'detail': 'shape=%s binding=%s obj=%s call #%d of %s raised %s: %s' % (
                                    case['shape'], b, case['obj'], i, name, type(e).__name__, str(e)[:300])})
    finally:
        sys.modules.pop(mod.__name__, None)
    return {'fails': fails, 'nontrivial': case['calls'] >= 2 and case['binding'] not in ('class', 'undefined'), 'evals': evals,
            'classes': ['fwd', 'shape:' + case['shape'], 'binding:' + case['binding'], 'calls:%d' % case['calls']]}


def run_case(case):
    if case['family'] == 'fwd':
        return run_fwd(case)
    if case['family'] == 'user':
        return run_user(case)
    if case['family'] == 'valid':
        return run_valid(case)
    return run_junk(case)
