"""C19 - is_subhint is a sound preorder and TypeHint wrappers are coherent."""
import json

from hypothesis import strategies as st

from beartype.door import TypeHint, is_bearable, is_subhint
from beartype.roar import BeartypeDoorException

from vlib import hints as H
from vlib import entry as E
from vlib import sampler
from vlib.props.c01 import draws_for

PID = 'C19'
LEVEL = 'exploration'
BUDGET = {'quick': 5000, 'thorough': 250000}
CAP_S = {'quick': 150, 'thorough': 3000}
# thorough tier only: 300 s x 8 coverage-guided libFuzzer campaigns over the same strategy and oracle (vlib/fuzz_driver.py)
FUZZ = {'thorough': (300, 8)}
RULE = ('case = triple (A, B, C) of hints: either a widening chain (B derived from A and C from B by replacing a class by a base, '
        'adding union members / Optional, widening a container ABC, dropping Annotated, Literal -> its type, fixed -> variadic tuple, '
        'covariant child widening, NewType/TypeVar -> supertype/bound) or unrelated random hints, plus 3 objects built to conform to A. '
        'Laws: reflexivity of each hint; transitivity on beartype\'s own answers; soundness (A <= B, Any-free: every object conforming to A '
        'is accepted against B for every draw and by the reference semantics); TypeHint(h) is TypeHint(h); equal wrappers have equal hashes '
        'and are mutual subhints; len/iter/getitem/contains/args describe the same children; == is asked in both orders; one case in twelve is a near-miss triple (tuple[X], tuple[X, ...], tuple[X, X], tuple[()]). non-trivial = some A <= B holds with A != B '
        '(pairs) or both premises of transitivity hold with three distinct hints; distinct by canonical JSON')
ASSUMPTIONS = [
    'only soundness and the order laws are asserted; a widening beartype does not recognise is counted, not alarmed',
    'pairs for which is_subhint raises the documented BeartypeDoorIsSubhintException are unanswered and excluded from the premises',
    'object-level soundness is not asserted for Callable parameters (shallow hints are isinstance-only on both sides)',
    'typing.Any is compatible with everything in both directions (gradual typing), so triples involving Any are excluded from transitivity as the statement excludes them from soundness',
    'symmetry of == is not asserted (not part of the statement)',
]

_CONTAINER_UP = {'list': ['seq', 'Sequence'], 'List': ['seq', 'TSequence'], 'MutableSequence': ['seq', 'Sequence'],
                 'TMutableSequence': ['seq', 'TSequence'], 'Sequence': ['reit', 'Collection'], 'TSequence': ['reit', 'TCollection'],
                 'set': ['reit', 'AbstractSet'], 'Set': ['reit', 'TAbstractSet'], 'frozenset': ['reit', 'AbstractSet'],
                 'FrozenSet': ['reit', 'TAbstractSet'], 'MutableSet': ['reit', 'AbstractSet'], 'AbstractSet': ['reit', 'Collection'],
                 'TAbstractSet': ['reit', 'TCollection'], 'deque': ['reit', 'Collection'], 'Deque': ['reit', 'TCollection'],
                 'KeysView': ['reit', 'Collection'], 'ValuesView': ['reit', 'Collection'], 'Collection': ['quasi', 'Iterable'],
                 'TCollection': ['quasi', 'TIterable']}
_MAP_UP = {'dict': 'MutableMapping', 'Dict': 'TMapping', 'MutableMapping': 'Mapping', 'OrderedDict': 'dict',
           'defaultdict': 'dict', 'DefaultDict': 'Dict', 'ChainMap': 'MutableMapping'}
_ROW_UP = {'VRow[int]': ['cls', 'int'], 'VRow[bytes]': ['cls', 'bytes']}
_CLS_UP = {'VDerived': 'VBase', 'bool': 'int'}
# callable hints: parameters narrow, returns widen (statically; at run time every callable conforms to each of them)
_CALL_UP = {'Callable[[VBase],VDerived]': ['Callable[[VDerived],VBase]', 'Callable[...,VBase]', 'Callable[...,object]', 'Callable'],
            'Callable[[VDerived],VBase]': ['Callable[...,VBase]', 'Callable[...,object]', 'Callable'],
            'Callable[...,VBase]': ['Callable[...,object]', 'Callable'],
            'Callable[[],int]': ['Callable[...,int]', 'Callable[...,object]', 'Callable'],
            'Callable[...,int]': ['Callable[...,object]', 'Callable'],
            'Callable[[int,str],bool]': ['Callable[...,int]', 'Callable[...,object]', 'Callable'],
            'Callable[[int],str]': ['Callable[...,object]', 'Callable'],
            'Callable[...,object]': ['Callable'], 'Callable': ['Callable[...,object]']}


@st.composite
def widen(draw, node):
    """A hint whose meaning includes the meaning of ``node`` (by the reference semantics)."""
    k = node[0]
    # 'ann-over-ignorable' is NOT a widening but a soundness probe: Annotated[object | ~T, <validator>] constrains through its
    # metadata only, so a hint is its subhint only if every conforming object happens to pass the validator
    opts = ['same', 'optional', 'union+', 'ann-over-ignorable']
    if k == 'cls' and node[1] in _CLS_UP:
        opts += ['base', 'base']
    if k == 'cls':
        opts += ['object']
    if k == 'lit':
        opts += ['littype', 'lit+', 'lookalike']
    if k == 'shallow' and node[1] in _CALL_UP:
        opts += ['callup', 'callup']
    if k == 'union':
        opts += ['member']
    if k in ('seq', 'reit') and node[1] in _CONTAINER_UP:
        opts += ['abc', 'abc', 'child']
    elif k in ('seq', 'reit', 'quasi'):
        opts += ['child']
    if k == 'tupf' and node[1]:
        opts += ['pos', 'variadic']
    if k == 'tupv':
        opts += ['child', 'toseq']
    if k == 'map':
        # related one-parameter ABCs: by keys (what iterating a mapping yields) and - NOT a widening, a soundness probe - by values
        opts += ['mapabc', 'value', 'map-to-collection-of-keys', 'map-to-collection-of-values']
    if k == 'shallow' and node[1] == 'ItemsView[str,int]':
        # one-parameter ABCs ItemsView subclasses; its elements are (key, value) pairs, so only the last one is a widening
        opts += ['itemsview-up', 'itemsview-up', 'itemsview-up']
    if k == 'shallow' and node[1] in _ROW_UP:
        # user generic over a fixed-length tuple -> the tuples its instances are
        opts += ['row-tupf', 'row-tupv', 'row-tupv-first']
    if k == 'ann':
        opts += ['unann', 'unann']
    if k == 'nt':
        opts += ['super', 'super']
    if k == 'tv' and node[1] == 'VTB':
        opts += ['bound']
    m = draw(st.sampled_from(opts))
    if m == 'same':
        return node
    if m == 'optional':
        return ['union', [node], 'O']
    if m == 'ann-over-ignorable':
        base = draw(st.sampled_from([['any', 'object'], ['any', 'object'], ['tv', 'VT']]))
        v = draw(st.sampled_from([['is', 'truthy'], ['is', 'falsy'], ['is', 'never'], ['isinst', 'str'], ['isinst', 'VBase'],
                                  ['guard', 'or-and', 'truthy']]))
        return ['ann', base, [v]]
    if m == 'union+':
        other = draw(H.hint_nodes(0, hashable=True))
        if other[0] == 'any':
            other = ['cls', 'bytes']
        return ['union', [node, other] if draw(st.booleans()) else [other, node], draw(st.sampled_from(['U', 'P']))]
    if m == 'base':
        return ['cls', _CLS_UP[node[1]]]
    if m == 'callup':
        return ['shallow', draw(st.sampled_from(_CALL_UP[node[1]]))]
    if m == 'object':
        return ['any', 'object']
    if m == 'littype':
        types_ = {type(H.lit_value(v)) for v in node[1]}
        names = {int: 'int', str: 'str', bytes: 'bytes', bool: 'bool', type(None): None, H.VColor: 'VColor'}
        members = [['none'] if names[t] is None else ['cls', names[t]] for t in sorted(types_, key=lambda t: t.__name__)]
        return members[0] if len(members) == 1 else ['union', members, 'U']
    if m == 'lookalike':
        # NOT a widening: equal-comparing members of another type (1/True, 0/False) probe soundness
        swap = {('i', 1): ['b', True], ('i', 0): ['b', False], ('b', True): ['i', 1], ('b', False): ['i', 0]}
        return ['lit', [swap.get((v[0], v[1]) if len(v) > 1 else (v[0], None), v) for v in node[1]]]
    if m == 'lit+':
        extra = draw(st.sampled_from([['i', 9], ['s', 'q'], ['n'], ['b', False]]))
        return ['lit', node[1] + ([extra] if extra not in node[1] else [])]
    if m == 'member':
        i = draw(st.integers(0, len(node[1]) - 1))
        ms = list(node[1])
        ms[i] = draw(widen(ms[i]))
        return ['union', ms, node[2]]
    if m == 'abc':
        up = _CONTAINER_UP[node[1]]
        return [up[0], up[1], node[2]]
    if m == 'child':
        if k == 'tupv':
            return ['tupv', draw(widen(node[1])), node[2]]
        return [k, node[1], draw(widen(node[2]))]
    if m == 'pos':
        i = draw(st.integers(0, len(node[1]) - 1))
        ms = list(node[1])
        ms[i] = draw(widen(ms[i]))
        return ['tupf', ms, node[2]]
    if m in ('row-tupf', 'row-tupv', 'row-tupv-first'):
        first, second = _ROW_UP[node[1]], ['mylist', ['cls', 'str']]
        sty = draw(st.sampled_from(['t', 'T']))
        if m == 'row-tupf':
            return ['tupf', [first, second], sty]
        # row-tupv-first is NOT a widening (the second item is no int / bytes) but a probe: a comparison that walks the children of
        # both sides must not run off the end of the shorter one
        return ['tupv', ['union', [first, second], 'U'] if m == 'row-tupv' else first, sty]
    if m == 'variadic':
        ms = node[1]
        child = ms[0] if all(x == ms[0] for x in ms) else ['union', list(ms), 'U']
        return ['tupv', child, node[2]]
    if m == 'toseq':
        return ['seq', 'Sequence', node[1]]
    if m == 'mapabc':
        return ['map', _MAP_UP.get(node[1], node[1]), node[2], node[3]]
    if m == 'value':
        return ['map', node[1], node[2], draw(widen(node[3]))]
    if m == 'map-to-collection-of-keys':
        fam = draw(st.sampled_from([['reit', 'Collection'], ['reit', 'TCollection'], ['quasi', 'Iterable'], ['quasi', 'Container']]))
        return [fam[0], fam[1], node[2]]
    if m == 'map-to-collection-of-values':
        return ['reit', 'Collection', node[3]] if draw(st.booleans()) else ['quasi', 'Iterable', node[3]]
    if m == 'itemsview-up':
        child = draw(st.sampled_from([['cls', 'str'], ['cls', 'int'], ['tupf', [['cls', 'str'], ['cls', 'int']], 't']]))
        fam = draw(st.sampled_from([['reit', 'Collection'], ['reit', 'TCollection'], ['reit', 'AbstractSet'], ['quasi', 'Iterable'],
                                    ['quasi', 'TIterable']]))
        return [fam[0], fam[1], child]
    if m == 'unann':
        return node[1]
    if m == 'super':
        return H.NEWTYPES[node[1]][1]
    if m == 'bound':
        return ['cls', 'VBase']
    raise ValueError(m)


_CALL_ANY = ['shallow', 'Callable[...,Any]']
_CALL_OBJ = ['shallow', 'Callable[...,object]']


def _mentions(node, leaf):
    if node == leaf:
        return True
    found = []
    H._map_children(node, lambda ch: found.append(_mentions(ch, leaf)) or ch)
    return any(found)


def _replace(node, leaf, new):
    if node == leaf:
        return new
    return H._map_children(node, lambda ch: _replace(ch, leaf, new))


def _sanitize(node):
    """(node, excluded).  Hashable is dropped from this property's grammar: issubclass(Collection, Hashable) is True in
    Python itself although instances need not be hashable, so class-based subhinting to Hashable says nothing about
    beartype."""
    node = _replace(node, ['shallow', 'Hashable'], ['shallow', 'Sized'])
    # PEP 695 aliases are documented as unsupported by TypeHint: each stands for its target here
    for name, (_alias, target) in H.ALIASES.items():
        node = _replace(node, ['alias', name], target)
    return _plain_tuples(node), 0


def _plain_tuples(node):
    # PEP 646 spellings of fixed tuples are documented as unsupported by TypeHint too
    if node[0] == 'tupf' and node[2] in ('u', 'v'):
        node = ['tupf', node[1], 't']
    return H._map_children(node, _plain_tuples)


@st.composite
def _case(draw, tier):
    depth = draw(st.sampled_from([0, 1, 1, 2, 2, 3] + ([4] if tier == 'thorough' else [])))
    a, _n = H.avoid_known_shapes(draw(H.hint_nodes(depth)))
    if draw(st.integers(0, 9)) == 0:
        # the non-recursive leaves of the grammar (views, callables, iterators, generators, user generics) are rare as roots of a
        # recursive draw: one case in ten starts from one of them, bare or inside a list / Optional
        a = ['shallow', draw(st.sampled_from(sorted(n for n in H.SHALLOW if n != 'Hashable')))]
        w = draw(st.sampled_from(['bare', 'bare', 'List', 'Optional']))
        a = {'bare': a, 'List': ['seq', 'List', a], 'Optional': ['union', [a], 'O']}[w]
    if draw(st.integers(0, 4)) == 0:
        b, _n = H.avoid_known_shapes(draw(H.hint_nodes(draw(st.sampled_from([0, 1, 2])))))
        c, _n = H.avoid_known_shapes(draw(H.hint_nodes(draw(st.sampled_from([0, 1])))))
        mode = 'random'
    else:
        b = H.merge_nested_annotated(draw(widen(a)))
        c = H.merge_nested_annotated(draw(widen(b)))
        mode = 'chain'
    if draw(st.integers(0, 7)) == 0:
        # twin probe: the same shape around two unrelated classes that share module, qualified name and repr
        # (typing.* spellings only: beartype's coercion of PEP 585/604 hints is keyed by repr - a listed C14 finding)
        w = draw(st.sampled_from(['bare', 'optional', 'Tuple', 'List', 'Dict', 'Union']))
        order = draw(st.permutations(['VTwinA', 'VTwinB']))

        def wrapt(c):
            x = ['cls', c]
            return {'bare': x, 'optional': ['union', [x], 'O'], 'Tuple': ['tupf', [x, ['cls', 'int']], 'T'],
                    'List': ['seq', 'List', x], 'Dict': ['map', 'Dict', ['cls', 'str'], x],
                    'Union': ['union', [x, ['cls', 'int']], 'U']}[w]
        a, b, c, mode = wrapt(order[0]), wrapt(order[1]), wrapt(order[0]), 'twin'
    if draw(st.integers(0, 11)) == 0:
        # near-miss probe: tuples over one child that differ in arity / ellipsis only (tuple[X], tuple[X, ...], tuple[X, X],
        # tuple[()]) - unequal hints whose wrappers hold the same children, in a random order
        x, _n = H.avoid_known_shapes(draw(H.hint_nodes(draw(st.sampled_from([0, 0, 1])))))
        sty = draw(st.sampled_from(['t', 'T']))
        forms = [['tupf', [x], sty], ['tupv', x, sty], ['tupf', [x, x], sty], ['tupf', [], sty]]
        a, b, c = draw(st.permutations(forms))[:3]
        mode = 'near'
    nex = 0
    a, n1 = _sanitize(a)
    b, n2 = _sanitize(b)
    c, n3 = _sanitize(c)
    objs = [draw(H.conforming(a)) for _ in range(3)]
    return {'mode': mode, 'A': a, 'B': b, 'C': c, 'objects': objs, 'excluded_known_shape': n1 + n2 + n3}


def strategy(tier):
    return _case(tier)


def _sub(a, b):
    """True / False / None (unanswered: documented 'undecidable' exception)."""
    try:
        return bool(is_subhint(a, b)), None
    except BeartypeDoorException as e:
        return None, e
    except Exception as e:
        return 'error', e


def has_any(node):
    return _mentions_typing_any(node)


def _mentions_typing_any(node):
    if node[0] == 'any':
        return node[1] == 'Any'
    if node[0] == 'type' and node[2] == 'TAny':      # typing.Type[typing.Any]
        return True
    if node == _CALL_ANY:                            # typing.Callable[..., typing.Any]
        return True
    found = []
    H._map_children(node, lambda ch: found.append(_mentions_typing_any(ch)) or ch)
    return any(found)


def _leaf_ids(h, out):
    args = getattr(h, '__args__', None)
    if isinstance(h, type) or not args:
        out.append(id(h) if isinstance(h, type) else repr(h))
    else:
        for x in args:
            _leaf_ids(x, out)
    return out


def _same_leaf_classes(a, b):
    """Two hints with equal reprs may still be different hints (same-named classes): the multisets of class
    identities at their leaves must coincide (member order of equal unions may differ)."""
    return sorted(map(str, _leaf_ids(a, []))) == sorted(map(str, _leaf_ids(b, [])))


def _shape(node):
    k = node[0]
    if k == 'ann':
        return 'ann(%s)[%s]' % (_shape(node[1]), ','.join(sorted({v[0] for v in node[2]})))
    if k == 'union':
        return 'union'
    if k == 'tv':
        return 'tv:' + node[1]
    if k == 'lit':
        return 'lit'
    return k


def run_case(case):
    nodes = {'A': case['A'], 'B': case['B'], 'C': case['C']}
    fails, seen, evals = [], set(), 0
    unanswered = 0

    def fail(sig, detail):
        if sig not in seen:
            seen.add(sig)
            fails.append({'sig': sig, 'detail': detail})
    hints = {}
    for n, node in nodes.items():
        hints[n] = E.hint_of(node)
    desc = {n: H.describe(node) for n, node in nodes.items()}
    # reflexivity + wrapper coherence
    for n, h in hints.items():
        evals += 1
        r, err = _sub(h, h)
        if r is False:
            fail('not-reflexive:%s' % H.node_kinds(nodes[n])[0], 'is_subhint(%s, %s) is False' % (desc[n], desc[n]))
        elif r == 'error':
            fail('is_subhint-error:%s@%s' % (type(err).__name__, E.where(err)), '%s: %r' % (desc[n], err))
        try:
            t1, t2 = TypeHint(h), TypeHint(h)
        except Exception as e:
            fail('TypeHint-error:%s@%s' % (type(e).__name__, E.where(e)), '%s: %r' % (desc[n], e))
            continue
        try:
            hash(h)
            hashable = True
        except TypeError:
            hashable = False
        try:
            wrapped = t1.hint
            if wrapped is not h and not (h is None and wrapped is type(None)) and not (wrapped == h and _same_leaf_classes(wrapped, h)):
                fail('wrapper-wraps-another-hint', 'TypeHint(%s).hint is %r (not the hint it was built from)' % (desc[n], wrapped))
        except AttributeError:
            pass
        if hashable and t1 is not t2:
            fail('TypeHint-not-memoised', 'TypeHint(%s) is not TypeHint(same object)' % desc[n])
        try:
            kids = list(t1)
            if len(t1) != len(kids):
                fail('len-vs-iter', '%s: len=%d iter=%d' % (desc[n], len(t1), len(kids)))
            for i, kch in enumerate(kids):
                if t1[i] is not kch:
                    fail('getitem-vs-iter', '%s: t[%d] is not list(t)[%d]' % (desc[n], i, i))
                if kch not in t1:
                    fail('contains-vs-iter', '%s: child %r not in wrapper' % (desc[n], kch))
            if t1 != t2 or hash(t1) != hash(t2):
                fail('self-unequal', '%s: wrapper unequal to itself or hash unstable' % desc[n])
        except BeartypeDoorException:
            unanswered += 1    # documented "undecidable" answer of the comparison underlying == / in
        except Exception as e:
            fail('TypeHint-protocol-error:%s@%s' % (type(e).__name__, E.where(e)), '%s: %r' % (desc[n], e))
    # pairwise relations
    rel = {}
    for x in 'ABC':
        for y in 'ABC':
            if x != y:
                rel[x + y], err = _sub(hints[x], hints[y])
                evals += 1
                if rel[x + y] == 'error':
                    fail('is_subhint-error:%s@%s' % (type(err).__name__, E.where(err)), '%s vs %s: %r' % (desc[x], desc[y], err))
    distinct3 = len({json.dumps(n) for n in nodes.values()}) == 3
    # transitivity over all orderings of the three hints
    any_involved = any(has_any(n) for n in nodes.values())
    for x, y, z in () if any_involved else (('A', 'B', 'C'), ('A', 'C', 'B'), ('B', 'A', 'C'), ('B', 'C', 'A'), ('C', 'A', 'B'), ('C', 'B', 'A')):
        if rel[x + y] is True and rel[y + z] is True and rel[x + z] is False:
            fail('not-transitive', '%s <= %s and %s <= %s but not %s <= %s' % (desc[x], desc[y], desc[y], desc[z], desc[x], desc[z]))
    # wrapper equality coherence
    # (== is asked in both orders: TypeHint.__eq__ is implemented per wrapper class, so the answer may depend on which side is asked)
    for x, y in (('A', 'B'), ('B', 'C'), ('A', 'C'), ('B', 'A'), ('C', 'B'), ('C', 'A')):
        try:
            tx, ty = TypeHint(hints[x]), TypeHint(hints[y])
            if tx == ty:
                if hash(tx) != hash(ty):
                    fail('equal-wrappers-unequal-hash', 'TypeHint(%s) == TypeHint(%s) but hashes differ' % (desc[x], desc[y]))
                if rel[x + y] is False or rel[y + x] is False:
                    fail('equal-wrappers-not-mutual-subhints', '%s == %s' % (desc[x], desc[y]))
        except Exception:
            pass
    # soundness A <= B, A <= C (objects conform to A by construction; re-validated)
    strict_pairs = 0
    for y in 'BC':
        if rel['A' + y] is not True:
            continue
        if nodes['A'] != nodes[y]:
            strict_pairs += 1
        if has_any(nodes['A']) or has_any(nodes[y]):
            continue
        for vast in case['objects']:
            obj = H.realize(vast)
            if not H.conforms(nodes['A'], obj):
                continue
            ref = H.conforms(nodes[y], H.realize(vast))
            for r in draws_for(vast, ())[:6]:
                evals += 1
                with sampler.draw(r):
                    try:
                        ok = is_bearable(H.realize(vast), hints[y])
                    except Exception as e:
                        ok = e
                if ok is not True:
                    lab = ('callable-ellipsis-ignorable-child' if _mentions(nodes[y], _CALL_OBJ) and nodes[y] != _CALL_OBJ
                           else '%s<=%s' % (_shape(nodes['A']), _shape(nodes[y])))
                    fail('unsound-subhint:%s' % lab,
                         'is_subhint(%s, %s) holds, %r conforms to the first but is_bearable against the second gives %r '
                         '(draw %d; reference semantics says %r)' % (desc['A'], desc[y], obj, ok, r, ref))
                    break
            if not ref and not H.must_reject(nodes[y], H.realize(vast)):
                pass
    transit = rel['AB'] is True and rel['BC'] is True and distinct3
    unanswered += sum(1 for v in rel.values() if v is None)
    classes = ['mode:' + case['mode'], 'AB:%s' % rel['AB'], 'BC:%s' % rel['BC'], 'AC:%s' % rel['AC']]
    return {'fails': fails, 'nontrivial': bool(strict_pairs or transit), 'classes': classes, 'evals': evals,
            'extra': {'unanswered_undecidable': unanswered, 'transitivity_skipped_any': int(any_involved)},
            'excluded': case.get('excluded_known_shape', 0)}
