"""C18 - hint-rewriting options (is_pep484_tower, hint_overrides) behave exactly like rewriting the
hints by hand; violation_* options change only the class of the signal."""
import json

from hypothesis import strategies as st

from vlib import hints as H
from vlib import entry as E
from vlib.props.c01 import draws_for

PID = 'C18'
LEVEL = 'exploration'
BUDGET = {'quick': 5000, 'thorough': 200000}
CAP_S = {'quick': 150, 'thorough': 3000}
# thorough tier only: 300 s x 8 coverage-guided libFuzzer campaigns over the same strategy and oracle (vlib/fuzz_driver.py)
FUZZ = {'thorough': (300, 8)}
RULE = ('case = (hint H from the shared grammar with float / complex / overridden sub-hints injected at generated positions and depths (also alone below type[...] when the replacement is a class or a union of classes), '
        'is_pep484_tower, hint_overrides {A: B} with A a class or a subscripted hint and B from the grammar incl. the documented '
        'self-referential form A -> A | C, violation_* options, object conforming to or violating the hand-rewritten hint H1, draws). '
        'Metamorphic oracle: my own structural rewrite (outermost first, an override is not re-applied inside its own replacement) gives H1; '
        'each of the six entry points must give the same verdict and violation class for (H, rewriting conf) and (H1, same conf without the '
        'rewriting options) under the same draw. non-trivial = a rewritten sub-hint sits at depth >= 1 and the object separates H from H1 '
        '(conforms to H1 but not to H); distinct by canonical JSON')
ASSUMPTIONS = [
    'override keys are chosen among hints that occur only as ordinary sub-hints in the grammar (never as TypeVar bounds, NewType supertypes, '
    'type[...] arguments or arguments of shallowly checked hints), so "occurrence of A" is unambiguous',
    'reference semantics of vlib/hints.py is used only to classify cases, the verdict comparison is beartype(H, conf) vs beartype(H1)',
]

KEYS = [['cls', 'bytes'], ['cls', 'VOther'], ['seq', 'list', ['cls', 'bytes']], ['tupv', ['cls', 'VOther'], 't'],
        ['cls', 'float'], ['cls', 'complex']]


def _canon(n):
    return json.dumps(n)


def rewrite(node, overrides, tower, active=frozenset()):
    """Hand rewriting.  overrides: list of [A, B]."""
    table = {_canon(a): b for a, b in overrides}
    if tower:
        table.setdefault(_canon(['cls', 'float']), ['union', [['cls', 'float'], ['cls', 'int']], 'P'])
        table.setdefault(_canon(['cls', 'complex']), ['union', [['cls', 'complex'], ['cls', 'float'], ['cls', 'int']], 'P'])

    def go(n, act):
        c = _canon(n)
        if c in table and c not in act:
            return go(table[c], act | {c})
        # rewriting an alias or a new type by hand means rewriting what it stands for (beartype applies the options to the
        # target of a PEP 695 alias and to the supertype of a NewType): it is spelled out when the rewrite changes it
        if n[0] in ('alias', 'nt'):
            target = (H.ALIASES if n[0] == 'alias' else H.NEWTYPES)[n[1]][1]
            new = go(target, act)
            return new if _canon(new) != _canon(target) else n
        return H._map_children(n, lambda ch: go(ch, act))
    return go(node, active)


_HASHABLE_REIT = ('set', 'Set', 'frozenset', 'FrozenSet', 'AbstractSet', 'TAbstractSet', 'MutableSet', 'KeysView')


def _typeable(n):
    """n may stand below type[...]: a class or a union of classes."""
    return n[0] == 'cls' or (n[0] == 'union' and n[2] != 'O' and all(m[0] == 'cls' for m in n[1]))


def inject(draw, node, targets, depth=0, hits=None, hashable=False, typeable=()):
    """Replace some class leaves by rewrite targets (float, complex, override keys); positions whose
    members must be hashable (set items, mapping keys) only receive hashable targets."""
    k = node[0]
    if k == 'cls' and node[1] in H.LEAF_CLASSES and draw(st.integers(0, 2)) == 0:
        ts = [t for t in targets if not hashable or H.hashable_node(t)]
        if not ts:
            return node
        hits.append(depth)
        return draw(st.sampled_from(ts))
    if k == 'type' and node[1] is not None and node[1][0] == 'cls' and typeable and draw(st.integers(0, 1)) == 0:
        # type[A] with A a rewritten class whose replacement is a class or a union of classes: type[float] under the tower
        hits.append(depth + 1)
        return ['type', draw(st.sampled_from(list(typeable))), node[2]]
    if k in ('type', 'lit', 'tv', 'nt', 'alias', 'proto', 'shallow', 'none', 'any', 'cls'):
        return node

    def go(ch, h):
        return inject(draw, ch, targets, depth + 1, hits, hashable or h, typeable)
    if k in ('union', 'tupf'):
        return [k, [go(m, False) for m in node[1]]] + node[2:]
    if k in ('tupv', 'ann'):
        return [k, go(node[1], False)] + node[2:]
    if k == 'mylist':
        return [k, go(node[1], False) if node[1] is not None else None]
    if k == 'counter':
        return [k, go(node[1], True)] + node[2:]
    if k == 'reit':
        return [k, node[1], go(node[2], node[1] in _HASHABLE_REIT)]
    if k in ('seq', 'quasi'):
        return [k, node[1], go(node[2], False)]
    if k == 'map':
        return [k, node[1], go(node[2], True), go(node[3], False)]
    return node


def _opaque_free(node):
    """Leaves the hand rewriter cannot look into must not mention an override key: beartype also rewrites the argument of a
    user generic's subscription (VRow[bytes] -> VRow[<replacement of bytes>]), which the leaf spelling hides from the rewriter."""
    if node == ['shallow', 'VRow[bytes]']:
        return ['shallow', 'VRow[int]']
    return H._map_children(node, _opaque_free)


def contains_key(node, keys):
    cs = {_canon(k) for k in keys}
    found = []

    def go(n):
        if _canon(n) in cs:
            found.append(1)
        if n[0] == 'alias':          # a PEP 695 alias or a new type mentions what its target mentions
            go(H.ALIASES[n[1]][1])
        if n[0] == 'nt':
            go(H.NEWTYPES[n[1]][1])
        H._map_children(n, lambda ch: go(ch) or ch)
    go(node)
    return bool(found)


@st.composite
def _case(draw, tier):
    tower = draw(st.booleans())
    nover = draw(st.integers(0, 2)) if tower else draw(st.integers(1, 2))
    keys = draw(st.lists(st.sampled_from(KEYS[:4] if tower else KEYS), min_size=nover, max_size=nover, unique_by=_canon))
    overrides = []
    nested_parts = []
    nex = 0
    for a in keys:
        mode = draw(st.sampled_from(['self-nested', 'self', 'other', 'other', 'self-wide', 'wide']))
        c, _n = H.avoid_known_shapes(draw(H.hint_nodes(draw(st.sampled_from([0, 0, 1])), hashable=True)))
        c = _opaque_free(c)
        # the replacement must not mention any override key or tower class except the documented A | C form
        if contains_key(c, KEYS):
            c = ['cls', 'int']
        # (replacements beartype ignores - Any, object, unbound TypeVar - were excluded while C18/override-to-ignorable-in-union was
        # an open finding; repaired in 53677c3, they are generated again)
        if mode == 'self-nested':
            # the replacement mentions its own key again below a container (A -> A | list[A], A -> list[A]): the occurrence
            # inside the replacement is not replaced again, an explicit occurrence elsewhere in the hint is
            inner = draw(st.sampled_from([['tupv', a, 't'], ['tupf', [a, ['cls', 'int']], 't'], ['tupv', a, 'T']]))    # hashable containers only
            b = ['union', [a, inner], 'U'] if draw(st.booleans()) else inner
            overrides.append([a, b])
            nested_parts.append(inner)
            continue
        if mode in ('self-wide', 'wide'):
            # replacement = a union with more members than the unions the key usually sits in (Optional[A], A | int)
            extra = draw(st.lists(st.sampled_from([['cls', 'int'], ['cls', 'str'], ['cls', 'VBase'], ['cls', 'bool'], ['none']]),
                                  min_size=2, max_size=4, unique_by=_canon))
            b = ['union', ([a] if mode == 'self-wide' else []) + extra, draw(st.sampled_from(['U', 'P']))]
        else:
            b = ['union', [a, c], 'U'] if mode == 'self' else c
        overrides.append([a, b])
    # (the container in which a self-nested replacement mentions its key is itself written out in the checked hint now and then)
    targets = [a for a, _b in overrides] + nested_parts + ([['cls', 'float'], ['cls', 'complex']] if tower else [])
    depth = draw(st.sampled_from([0, 1, 1, 2, 2, 3] + ([4] if tier == 'thorough' else [])))
    base, _n = H.avoid_known_shapes(draw(H.hint_nodes(depth)))
    base = _opaque_free(base)
    hits = []
    # rewritten classes that may stand alone below type[...]: their replacement is a class or a union of classes
    typeable = [t for t in targets if t[0] == 'cls' and _typeable(rewrite(t, overrides, tower))]
    node = inject(draw, base, targets, 0, hits, False, typeable)
    if not hits:
        # make sure at least one rewritten sub-hint is present
        t = draw(st.sampled_from(targets))
        wrap = draw(st.sampled_from(['bare', 'list', 'dictv', 'tup', 'opt', 'opt', 'set', 'union2', 'listopt'] +
                                    (['type', 'listtype'] if t in typeable else [])))
        node = {'type': ['type', t, 't'], 'listtype': ['seq', 'list', ['type', t, 'T']], 'bare': t, 'list': ['seq', 'list', t], 'dictv': ['map', 'dict', ['cls', 'str'], t],
                'tup': ['tupf', [['cls', 'int'], t], 't'], 'opt': ['union', [t], 'O'],
                'union2': ['union', [t, ['cls', 'VDerived']], 'U'], 'listopt': ['seq', 'list', ['union', [t], 'O']],
                'set': ['reit', 'frozenset', t] if H.hashable_node(t) else ['seq', 'Sequence', t]}[wrap]
        hits = [0 if wrap == 'bare' else 1]
    node = H.merge_nested_annotated(node)
    node1 = H.merge_nested_annotated(rewrite(node, overrides, tower))
    if draw(st.integers(0, 3)) == 0:
        v = draw(H.violating(node1))
        val = v[0] if v is not None else draw(H.conforming(node1))
    else:
        val = draw(H.conforming(node1))
    vt = st.sampled_from([None, 'UserViolation', 'UserWarnViolation'])
    return {'hint': node, 'hint1': node1, 'tower': tower, 'overrides': overrides, 'value': val, 'hit_depths': hits,
            'conf': draw(st.fixed_dictionaries({}, optional={'violation_type': vt, 'violation_param_type': vt,
                                                             'is_random': st.booleans(), 'strategy': st.sampled_from(['O1', 'On'])})),
            'extra_draws': draw(st.lists(st.integers(0, 2 ** 32 - 1), max_size=1)), 'excluded_known_shape': nex}


def strategy(tier):
    return _case(tier)


def _outcome(res, spec, ep):
    """(verdict, class name of the signal)"""
    if res['verdict'] == 'raised':
        return ('raised', type(res['exc']).__name__)
    viol = [w.category.__name__ for w in res['warnings'] if w.category in E.VIOL_CLASSES.values() or
            w.category.__name__.endswith('Violation')]
    if viol:
        return ('warned', viol[0])
    return (res['verdict'], None)


def run_case(case):
    node, node1, vast = case['hint'], case['hint1'], case['value']
    spec1 = dict(case['conf'])
    spec = dict(case['conf'])
    if case['tower']:
        spec['is_pep484_tower'] = True
    if case['overrides']:
        spec['hint_overrides'] = case['overrides']
    x = H.realize(vast)
    fails, seen, evals = [], set(), 0

    def fail(sig, detail):
        if sig not in seen:
            seen.add(sig)
            fails.append({'sig': sig, 'detail': 'H=%s H1=%s tower=%r overrides=%s obj=%r %s' % (
                H.describe(node), H.describe(node1), case['tower'],
                [(H.describe(a), H.describe(b)) for a, b in case['overrides']], x, detail)})
    try:
        E.conf_from_spec(spec)
    except Exception as e:
        fail('conf-rejected:%s' % type(e).__name__, str(e)[:300])
        return {'fails': fails, 'nontrivial': False, 'classes': ['conf-rejected'], 'evals': 1}
    kindlab = 'tower' if case['tower'] and not case['overrides'] else 'overrides' if not case['tower'] else 'tower+overrides'
    for r in draws_for(vast, case.get('extra_draws', ()))[:8]:
        for ep in (e for e in E.entry_points_for(node) if e in E.entry_points_for(node1)):
            a = E.call_entry(ep, node, vast, spec, r)
            b = E.call_entry(ep, node1, vast, spec1, r)
            evals += 2
            oa, ob = _outcome(a, spec, ep), _outcome(b, spec1, ep)
            if oa != ob:
                if oa[0] == 'raised' and not (oa[1].endswith('Violation')):
                    fail('error:%s@%s' % (oa[1], E.where(a['exc'])), 'draw=%d ep=%s conf side raised %r' % (r, ep, a['exc']))
                elif ob[0] == 'raised' and not (ob[1].endswith('Violation')):
                    fail('error-handwritten-side:%s' % ob[1], 'draw=%d ep=%s hand-rewritten side raised %r' % (r, ep, b['exc']))
                else:
                    fail('rewrite-differs:%s' % kindlab, 'draw=%d ep=%s via conf -> %r, rewritten by hand -> %r' % (r, ep, oa, ob))
    sep = H.conforms(node1, x) and not H.conforms(node, x)
    nontriv = sep and max(case['hit_depths'] or [0]) >= 1
    classes = [kindlab, 'separating' if sep else ('conforming' if H.conforms(node1, x) else 'violating'),
               'hitdepth:%d' % max(case['hit_depths'] or [0])]
    return {'fails': fails, 'nontrivial': nontriv, 'classes': classes, 'evals': evals,
            'excluded': case.get('excluded_known_shape', 0)}
