"""C10 - checking never modifies or consumes the object being checked."""
import collections
import inspect

from hypothesis import strategies as st

from beartype import beartype
from beartype.door import TypeHint, die_if_unbearable, is_bearable

from vlib import hints as H
from vlib import sampler, spies

PID = 'C10'
LEVEL = 'exploration'
BUDGET = {'quick': 3000, 'thorough': 100000}
CAP_S = {'quick': 150, 'thorough': 3000}
RULE = ('case = (hint from the Iterable/Iterator/Generator/Container/Reversible/Collection/Sequence/set/deque/Mapping/dict/defaultdict/'
        'ChainMap families, optionally wrapped in Optional/Union/fixed tuple/list, object kind chosen independently of the hint among '
        'one-shot iterators with a logged __next__ (plain, with __len__ only, with __contains__ only), generators, non-collection iterables, defaultdicts with a counting factory, ChainMaps over '
        'them, and list/tuple/set/deque/dict subclasses and ABC-only containers that log every method call; items conforming or violating; '
        'draw). After each of the six entry points: no mutator was called, no iterator advanced (generator still GEN_CREATED, next item is '
        'the first), default_factory never invoked, length and a deep snapshot of contents unchanged, every logged method is in the read-only '
        'allow-list of the statement, and the decorated identity function received and returned the identical object. '
        'non-trivial = the object is one-shot, a defaultdict / ChainMap, or a logging container with >= 1 item; distinct by canonical JSON')
ASSUMPTIONS = [
    'allow-list: __len__, __iter__ / iterator.__next__ / __getitem__ / keys / values / items / get / __contains__ / __reversed__ on '
    're-iterable collections, __repr__; on non-collections only __repr__ and __iter__-free protocol hooks',
]

ITEM = {'int': ['cls', 'int'], 'str': ['cls', 'str']}
HINT_FAMS = ['Iterable', 'TIterable', 'Iterator', 'Generator', 'Container', 'Reversible', 'Collection', 'Sequence', 'list', 'set',
             'deque', 'Mapping', 'MutableMapping', 'dict', 'defaultdict', 'ChainMap', 'OrderedDict', 'tupv']
OBJ_KINDS = ['SpyIterator', 'SpySizedIterator', 'SpyContainerIterator', 'generator', 'listiter', 'SpyIterable', 'SpyList', 'SpyTuple', 'SpySet', 'SpyFrozenSet', 'SpyDeque',
             'SpyColl', 'SpySeq', 'SpyAbstractSet', 'SpyDict', 'SpyOrderedDict', 'SpyDefaultDict', 'SpyMap', 'ChainMap',
             'plain-defaultdict']
NATURAL = {
    'Iterable': ['SpyIterator', 'SpySizedIterator', 'SpyContainerIterator', 'generator', 'SpyIterable', 'SpyList', 'SpySet', 'SpyDict', 'SpyColl', 'listiter', 'ChainMap'],
    'TIterable': ['SpyIterator', 'SpySizedIterator', 'SpyContainerIterator', 'generator', 'SpyIterable', 'SpyTuple', 'SpyDeque', 'SpyDefaultDict'],
    'Iterator': ['SpyIterator', 'SpySizedIterator', 'SpyContainerIterator', 'generator', 'listiter'], 'Generator': ['generator'],
    'Container': ['SpyList', 'SpySet', 'SpyColl', 'SpyDict', 'SpyContainerIterator'], 'Reversible': ['SpyList', 'SpyDeque', 'SpyTuple', 'SpyDict', 'SpySeq'],
    'Collection': ['SpyList', 'SpySet', 'SpyColl', 'SpyDeque', 'SpyDict', 'SpySeq', 'SpyDefaultDict', 'ChainMap'],
    'Sequence': ['SpyList', 'SpyTuple', 'SpySeq', 'SpyDeque'], 'list': ['SpyList'], 'set': ['SpySet'], 'deque': ['SpyDeque'],
    'Mapping': ['SpyDict', 'SpyMap', 'SpyDefaultDict', 'ChainMap', 'plain-defaultdict'], 'MutableMapping': ['SpyDict', 'SpyDefaultDict', 'ChainMap'],
    'dict': ['SpyDict', 'SpyDefaultDict', 'SpyOrderedDict', 'plain-defaultdict'], 'defaultdict': ['SpyDefaultDict', 'plain-defaultdict'],
    'ChainMap': ['ChainMap'], 'OrderedDict': ['SpyOrderedDict'], 'tupv': ['SpyTuple'],
}


def build_hint(fam, item, wrap, keyhint='int'):
    t = ITEM[item]
    if fam in ('Iterable', 'TIterable', 'Container', 'Reversible'):
        node = ['quasi', fam, t]
    elif fam in ('Collection', 'set', 'deque'):
        node = ['reit', fam, t]
    elif fam in ('Sequence', 'list'):
        node = ['seq', fam, t]
    elif fam == 'tupv':
        node = ['tupv', t, 't']
    elif fam in ('Iterator', 'Generator'):
        node = None
    else:
        # the key hint is the class of the keys or an ignorable hint (value-only code path of the mapping check)
        node = ['map', fam, {'int': ['cls', 'int'], 'Any': ['any', 'Any'], 'object': ['any', 'object']}[keyhint], t]
    if node is None:
        import collections.abc as cabc
        tt = H.build(t)
        hint = cabc.Iterator[tt] if fam == 'Iterator' else cabc.Generator[tt, None, None]
    else:
        hint = H.build(node)
    import typing
    if wrap == 'optional':
        hint = typing.Optional[hint]
    elif wrap == 'union':
        hint = typing.Union[hint, int]
    elif wrap == 'union-first':
        hint = typing.Union[bytes, hint]
    elif wrap == 'tuple':
        hint = tuple[hint, int]
    elif wrap == 'list':
        hint = list[hint]
    elif wrap == 'dictvalue':
        hint = dict[str, hint]
    return hint


class Factory:
    calls = 0

    def __call__(self):
        Factory.calls += 1
        return 0


GEN_LOG = []


def _gen(items):
    GEN_LOG.append('started')
    for i in items:
        GEN_LOG.append('yield')
        yield i


def build_obj(kind, item, n, bad):
    def leaf(j):
        if bad == 'all' or (bad == 'first' and j == 0) or (bad == 'last' and j == n - 1):
            return H.VAlien()
        return j if item == 'int' else 's%d' % j
    items = [leaf(j) for j in range(n)]
    # keys are far from 0..n-1: a check that indexes a mapping by position then misses (and wakes default factories)
    pairs = [(1000 + 7 * j, leaf(j)) for j in range(n)]
    spies.ACTIVE[0] = False
    try:
        if kind in ('SpyIterator', 'SpySizedIterator', 'SpyContainerIterator'):
            return getattr(spies, kind)(items)
        if kind == 'generator':
            return _gen(items)
        if kind == 'listiter':
            return iter(items)
        if kind in ('SpyIterable', 'SpyList', 'SpyTuple', 'SpyDeque', 'SpyColl', 'SpySeq'):
            return getattr(spies, kind)(items)
        if kind in ('SpySet', 'SpyFrozenSet', 'SpyAbstractSet'):
            return getattr(spies, kind)(items)
        if kind in ('SpyDict', 'SpyOrderedDict', 'SpyMap'):
            return getattr(spies, kind)(pairs)
        if kind == 'SpyDefaultDict':
            d = spies.SpyDefaultDict(Factory())
            dict.update(d, pairs)
            return d
        if kind == 'plain-defaultdict':
            d = collections.defaultdict(Factory())
            d.update(pairs)
            return d
        if kind == 'ChainMap':
            # the defaultdict is the *last* map: ChainMap.__getitem__ probes the maps in order with map[key], which
            # by itself inserts into a leading defaultdict (stdlib behaviour, not a property of the check)
            d1 = spies.SpyDefaultDict(Factory())
            dict.update(d1, pairs[n // 2:])
            return collections.ChainMap(spies.SpyDict(pairs[:n // 2]), d1)
        raise ValueError(kind)
    finally:
        spies.ACTIVE[0] = True


def snapshot(kind, x):
    """Deep-ish snapshot of the contents without going through the logged methods."""
    spies.ACTIVE[0] = False
    try:
        if kind in ('SpyIterator', 'SpySizedIterator', 'SpyContainerIterator'):
            return ('consumed', x.consumed)
        if kind == 'generator':
            return ('genstate', inspect.getgeneratorstate(x), len(GEN_LOG))
        if kind == 'listiter':
            return ('length_hint', x.__length_hint__())
        if kind in ('SpyIterable', 'SpyColl', 'SpySeq', 'SpyAbstractSet'):
            return ('items', [id(i) for i in x._items])
        if kind == 'SpyMap':
            return ('pairs', [(k, id(v)) for k, v in x._d.items()])
        if kind in ('SpyList', 'SpyTuple'):
            return ('items', [id(i) for i in (list if kind == 'SpyList' else tuple).__iter__(x)])
        if kind == 'SpyDeque':
            return ('items', [id(i) for i in collections.deque.__iter__(x)])
        if kind in ('SpySet', 'SpyFrozenSet'):
            return ('items', sorted(id(i) for i in (set if kind == 'SpySet' else frozenset).__iter__(x)))
        if kind in ('SpyDict', 'SpyOrderedDict', 'SpyDefaultDict', 'plain-defaultdict'):
            return ('pairs', [(k, id(v)) for k, v in dict.items(x)])
        if kind == 'ChainMap':
            return ('maps', [[(k, id(v)) for k, v in dict.items(m)] for m in x.maps])
        raise ValueError(kind)
    finally:
        spies.ACTIVE[0] = True


def _complete_natural():
    """Every object kind that is an instance of a family's ABC belongs to that family's natural pool (mappings are Reversible,
    Collections, Containers and Iterables too): the hand-written table above is extended, never narrowed."""
    import collections.abc as cabc
    abc_of = {'Iterable': cabc.Iterable, 'TIterable': cabc.Iterable, 'Iterator': cabc.Iterator, 'Container': cabc.Container,
              'Reversible': cabc.Reversible, 'Collection': cabc.Collection, 'Sequence': cabc.Sequence, 'Mapping': cabc.Mapping,
              'MutableMapping': cabc.MutableMapping, 'dict': dict, 'set': set, 'list': list, 'deque': collections.deque}
    for fam, abc in abc_of.items():
        for kind in OBJ_KINDS:
            try:
                o = build_obj(kind, 'int', 1, 'none')
                if isinstance(o, abc) and kind not in NATURAL[fam]:
                    NATURAL[fam].append(kind)
            except Exception:
                pass


READ_ONLY = {'__len__', '__iter__', 'iterator.__next__', '__getitem__', 'keys', 'values', 'items', 'get', '__contains__',
             '__reversed__', '__repr__', 'keys.__iter__', 'values.__iter__', 'items.__iter__', 'keys.__contains__',
             'values.__contains__', 'items.__contains__'}
NON_COLLECTIONS = {'SpyIterator', 'SpyIterable', 'SpySizedIterator', 'SpyContainerIterator'}


_complete_natural()


@st.composite
def _case(draw, tier):
    fam = draw(st.sampled_from(HINT_FAMS))
    if draw(st.integers(0, 3)) == 0:
        kind = draw(st.sampled_from(OBJ_KINDS))
    else:
        kind = draw(st.sampled_from(NATURAL[fam]))
    return {'fam': fam, 'item': draw(st.sampled_from(['int', 'str'])),
            'wrap': draw(st.sampled_from(['none', 'none', 'none', 'optional', 'union', 'union-first', 'tuple', 'list', 'dictvalue'])),
            'keyhint': draw(st.sampled_from(['Any', 'object', 'int', 'int'])),
            'kind': kind, 'n': draw(st.sampled_from([0, 1, 2, 3, 5])), 'bad': draw(st.sampled_from(['none', 'none', 'all', 'first', 'last'])),
            'draw': draw(st.sampled_from([0, 1, 2, 4, 2 ** 32 - 1]))}


def strategy(tier):
    return _case(tier)


def run_case(case):
    hint = build_hint(case['fam'], case['item'], case['wrap'], case.get('keyhint', 'int'))
    kind = case['kind']
    fails, seen, evals = [], set(), 0

    def fail(sig, detail):
        if sig not in seen:
            seen.add(sig)
            fails.append({'sig': sig, 'detail': 'hint=%r obj kind=%s n=%d bad=%s draw=%d: %s' % (
                hint, kind, case['n'], case['bad'], case['draw'], detail)})

    def ident(p):
        seen_args.append(p)
        return p
    ident.__annotations__ = {'p': hint, 'return': hint}
    seen_args = []
    try:
        deco = beartype(ident)
    except Exception as e:
        fail('decoration-error:%s' % type(e).__name__, repr(e))
        deco = None

    def wrapobj(x):
        if case['wrap'] == 'tuple':
            return (x, 1)
        if case['wrap'] == 'list':
            return [x]
        if case['wrap'] == 'dictvalue':
            return {'k': x}
        return x
    eps = [('is_bearable', lambda o: is_bearable(o, hint)), ('die_if_unbearable', lambda o: die_if_unbearable(o, hint)),
           ('TypeHint.is_bearable', lambda o: TypeHint(hint).is_bearable(o)),
           ('TypeHint.die_if_unbearable', lambda o: TypeHint(hint).die_if_unbearable(o))]
    if deco is not None:
        eps.append(('decorated-identity', deco))
    for ep, call in eps:
        x = build_obj(kind, case['item'], case['n'], case['bad'])
        o = wrapobj(x)
        Factory.calls = 0
        before = snapshot(kind, x)
        spies.reset()
        del seen_args[:]
        with sampler.draw(case['draw']):
            try:
                res = call(o)
                raised = None
            except Exception as e:
                res, raised = None, e
        evals += 1
        log = list(spies.LOG)
        after = snapshot(kind, x)
        if raised is not None and not type(raised).__name__.endswith('Violation'):
            fail('error:%s' % type(raised).__name__, '%s raised %r' % (ep, raised))
        muts = [m for c, m, i in log if m.startswith('MUTATOR:')]
        if muts:
            fail('mutator-called:%s:%s' % (kind, muts[0][8:]), '%s called %r' % (ep, muts))
        if Factory.calls:
            fail('default-factory-invoked:%s' % kind, '%s invoked default_factory %d times' % (ep, Factory.calls))
        if before != after:
            what = 'consumed' if before[0] in ('consumed', 'genstate', 'length_hint') else 'contents-changed'
            fail('%s:%s' % (what, kind), '%s: snapshot before %r after %r' % (ep, before, after))
        for c, m, i in log:
            if m not in READ_ONLY and not m.startswith('MUTATOR:'):
                fail('unexpected-method:%s.%s' % (c, m), '%s called %s.%s' % (ep, c, m))
            if c in NON_COLLECTIONS and m in ('iterator.__next__',):
                fail('consumed:%s' % c, '%s pulled an item from a non-collection iterable' % ep)
        if ep == 'decorated-identity' and raised is None:
            if not seen_args or seen_args[0] is not o or res is not o:
                fail('argument-identity-lost', 'wrapped callable saw %r, returned %r' % (seen_args, res))
        if kind == 'generator':
            # the next item after the check is the first item
            try:
                first = next(x)
                if case['n'] and GEN_LOG.count('yield') and first is not None:
                    pass
            except StopIteration:
                if case['n']:
                    fail('consumed:generator', '%s left an exhausted generator' % ep)
    nontriv = kind in ('SpyIterator', 'SpySizedIterator', 'SpyContainerIterator', 'generator', 'listiter', 'SpyIterable', 'SpyDefaultDict', 'plain-defaultdict', 'ChainMap') or case['n'] >= 1
    return {'fails': fails, 'nontrivial': nontriv, 'evals': evals,
            'classes': ['kind:' + kind, 'fam:' + case['fam'], 'wrap:' + case['wrap'], 'bad:' + case['bad']]}
