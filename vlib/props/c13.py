"""C13 - decorating a class equals decorating its methods; no-op cases are identities."""
import functools
import inspect
import subprocess
import sys
import warnings

from hypothesis import strategies as st

from beartype import BeartypeConf, BeartypeStrategy, beartype

PID = 'C13'
LEVEL = 'exploration'
BUDGET = {'quick': 1500, 'thorough': 60000}
CAP_S = {'quick': 150, 'thorough': 3000}
RULE = ('case = class source from a grammar: plain / class / static methods, properties with getter, setter and deleter, unannotated '
        'members, members annotated only in part (parameter / return / each property accessor independently), @no_type_check members, members pre-wrapped by a functools.wraps user decorator, nested classes (2 levels), single '
        'inheritance from an undecorated parent with annotated members, optional @dataclass, root class with a plain / ABC / user / falsy (__bool__, __len__) metaclass, decorated as @beartype, beartype(conf=c)(K) or beartype(K, conf=c); every member gets conforming and violating '
        'probe calls. Two routes over two copies of the same source: @beartype on the class vs my own rewriter decorating each own member '
        '(unwrapping and re-wrapping descriptors, recursing into nested classes, not touching inherited members). Asserted: same class '
        'object returned; probe verdicts equal call for call; descriptor kind, __name__, __qualname__, __doc__, inspect.signature and '
        '__wrapped__ is original for every wrapped member; inherited members untouched; idempotence (re-decorating changes no __dict__ '
        'entry; beartype(wrapper) is wrapper); identity for unannotated, @no_type_check and O0; python -O batch in a child interpreter. '
        'non-trivial = >= 3 member kinds, or a nested class, or inheritance; distinct by canonical JSON')
ASSUMPTIONS = [
    'the hand rewriter is the reference: it decorates exactly the functions found in vars(cls) (and in nested classes), nothing else',
    'idempotence / identity are judged on the function objects inside classmethod, staticmethod and property descriptors: beartype rebuilds the descriptor objects themselves around the same functions',
]

KINDS = ['method', 'classmethod', 'staticmethod', 'property', 'rwproperty', 'unannotated', 'no_type_check', 'prewrapped']
HINTS = ['int', 'str']


def userdeco(fn):
    @functools.wraps(fn)
    def inner(*a, **k):
        return fn(*a, **k)
    return inner


def render_class(spec, ind=0, parent=None):
    pad = '    ' * ind
    out = []
    if spec.get('dataclass'):
        out.append('%s@dataclasses.dataclass' % pad)
    flavour = spec.get('flavour', 'plain')
    bases = {'plain': parent or '', 'abc': 'abc.ABC', 'meta': 'metaclass=Meta', 'enum': 'enum.Enum',
             'protocol': 'typing.Protocol', 'falsy': 'metaclass=FalsyMeta', 'empty': 'metaclass=EmptyMeta'}[flavour if not parent else 'plain']
    out.append('%sclass %s%s:' % (pad, spec['name'], '(%s)' % bases if bases else ''))
    out.append('%s    """doc of %s"""' % (pad, spec['name']))
    if flavour == 'enum' and not parent:
        out.append('%s    ONLY = 1' % pad)
    if spec.get('dataclass'):
        out.append('%s    field_a: int = 0' % pad)
    for m in spec['members']:
        n, k, ph, rh = m['name'], m['kind'], m['param'], m['ret']
        body = 'return x' if m['body'] == 'echo' else "return 'v'" if m['body'] == 'str' else 'return 7'
        # each part of a member is annotated independently (absent keys = annotated: older replay files)
        pa = ': %s' % ph if m.get('ann_param', True) else ''
        ra = ' -> %s' % rh if m.get('ann_ret', True) else ''
        sig_ann = '(self, x%s)%s' % (pa, ra)
        p = pad + '    '
        if k == 'method':
            out += ['%sdef %s%s:' % (p, n, sig_ann), '%s    """doc %s"""' % (p, n), '%s    %s' % (p, body)]
        elif k == 'classmethod':
            out += ['%s@classmethod' % p, '%sdef %s(cls, x%s)%s:' % (p, n, pa, ra), '%s    %s' % (p, body)]
        elif k == 'staticmethod':
            out += ['%s@staticmethod' % p, '%sdef %s(x%s)%s:' % (p, n, pa, ra), '%s    """doc %s"""' % (p, n), '%s    %s' % (p, body)]
        elif k in ('property', 'rwproperty'):
            out += ['%s@property' % p, '%sdef %s(self)%s:' % (p, n, ra), '%s    """doc %s"""' % (p, n),
                    "%s    return getattr(self, '_%s', %s)" % (p, n, "'v'" if m['body'] == 'str' else '7')]
            if k == 'rwproperty':
                out += ['%s@%s.setter' % (p, n), '%sdef %s(self, x%s)%s:' % (p, n, pa, ' -> None' if m.get('ann_param', True) else ''),
                        '%s    self._%s = x' % (p, n),
                        '%s@%s.deleter' % (p, n), '%sdef %s(self)%s:' % (p, n, ' -> None' if m.get('ann_del', True) else ''),
                        '%s    self.__dict__.pop("_%s", None)' % (p, n)]
        elif k == 'unannotated':
            out += ['%sdef %s(self, x):' % (p, n), '%s    return x' % p]
        elif k == 'undecoratable':
            # annotated by an object that is no hint at all: decorating this member fails (fatally, or with a warning under
            # warning_cls_on_decorator_exception, in which case only this member is left as it is)
            out += ['%sdef %s(self, x: 0xBAD):' % (p, n), '%s    return x' % p]
        elif k == 'no_type_check':
            out += ['%s@typing.no_type_check' % p, '%sdef %s%s:' % (p, n, sig_ann), '%s    %s' % (p, body)]
        elif k == 'prewrapped':
            out += ['%s@userdeco' % p, '%sdef %s%s:' % (p, n, sig_ann), '%s    %s' % (p, body)]
    for nested in spec.get('nested', ()):
        out += render_class(nested, ind + 1)
    return out


def render(spec):
    lines = ['class Parent:', '    def inherited(self, x: int) -> int:', '        return x', '    @classmethod',
             '    def inherited_cm(cls, x: str) -> str:', '        return x', '']
    lines += render_class(spec, 0, 'Parent' if spec.get('inherit') else None)
    return '\n'.join(lines) + '\n'


def load(spec):
    import dataclasses
    import typing
    import abc
    import enum
    ns = {'dataclasses': dataclasses, 'typing': typing, 'userdeco': userdeco, '__name__': 'c13mod', 'abc': abc, 'enum': enum,
          'Meta': type('Meta', (type,), {}),
          # classes whose truth value is False (a registry-style metaclass with no entries yet): still classes to be decorated
          'FalsyMeta': type('FalsyMeta', (type,), {'__bool__': lambda cls: False}),
          'EmptyMeta': type('EmptyMeta', (type,), {'__len__': lambda cls: 0})}
    src = render(spec)
    exec(compile(src, '<c13>', 'exec'), ns)
    return ns, src


def underlying(attr):
    if isinstance(attr, (classmethod, staticmethod)):
        return attr.__func__
    return attr


def same_functions(a, b):
    """Two descriptors (or functions) wrap the identical function objects.  beartype rebuilds classmethod /
    staticmethod / property descriptor objects around the same functions; only the functions are compared."""
    if type(a) is not type(b):
        return False
    if isinstance(a, property):
        return a.fget is b.fget and a.fset is b.fset and a.fdel is b.fdel
    return underlying(a) is underlying(b)


def hand_decorate(cls, deco):
    """The reference route: decorate each function the class itself defines, re-wrapping descriptors by hand."""
    for name, attr in list(vars(cls).items()):
        if isinstance(attr, type):
            if attr.__qualname__.startswith(cls.__qualname__ + '.'):
                hand_decorate(attr, deco)
        elif isinstance(attr, classmethod):
            setattr(cls, name, classmethod(deco(attr.__func__)))
        elif isinstance(attr, staticmethod):
            setattr(cls, name, staticmethod(deco(attr.__func__)))
        elif isinstance(attr, property):
            setattr(cls, name, property(deco(attr.fget) if attr.fget else None, deco(attr.fset) if attr.fset else None,
                                        deco(attr.fdel) if attr.fdel else None, attr.__doc__))
        elif inspect.isfunction(attr):
            setattr(cls, name, deco(attr))
    return cls


def probes(cls, spec, prefix=''):
    """[(label, thunk)] exercising every member with conforming and violating arguments."""
    out = []
    try:
        inst = list(cls)[0] if spec.get('flavour') == 'enum' else cls()
    except Exception as e:
        out.append((prefix + 'ctor', lambda e=e: (_ for _ in ()).throw(e)))
        return out
    vals = {'int': (3, 'bad'), 'str': ('s', 4)}
    for m in spec['members']:
        n, k = m['name'], m['kind']
        good, bad = vals[m['param']]
        for tag, v in (('good', good), ('bad', bad)):
            if k in ('method', 'unannotated', 'no_type_check', 'prewrapped', 'undecoratable'):
                out.append(('%s%s(%s)' % (prefix, n, tag), lambda v=v, n=n: getattr(inst, n)(v)))
            elif k == 'classmethod':
                out.append(('%s%s(%s)' % (prefix, n, tag), lambda v=v, n=n: getattr(cls, n)(v)))
                out.append(('%sinst.%s(%s)' % (prefix, n, tag), lambda v=v, n=n: getattr(inst, n)(v)))
            elif k == 'staticmethod':
                out.append(('%s%s(%s)' % (prefix, n, tag), lambda v=v, n=n: getattr(cls, n)(v)))
            elif k == 'rwproperty':
                out.append(('%sset %s(%s)' % (prefix, n, tag), lambda v=v, n=n: setattr(inst, n, v)))
                out.append(('%sget %s after set(%s)' % (prefix, n, tag), lambda n=n: getattr(inst, n)))
                out.append(('%sdel %s' % (prefix, n), lambda n=n: delattr(inst, n)))
        if k == 'property':
            out.append(('%sget %s' % (prefix, n), lambda n=n: getattr(inst, n)))
    if spec.get('dataclass'):
        out.append((prefix + 'ctor(bad field)', lambda: cls(field_a='bad')))
    if spec.get('inherit'):
        out.append((prefix + 'inherited(bad)', lambda: inst.inherited('bad')))
        out.append((prefix + 'inherited_cm(bad)', lambda: cls.inherited_cm(5)))
    for nested in spec.get('nested', ()):
        out += probes(getattr(cls, nested['name']), nested, prefix + nested['name'] + '.')
    return out


def run_probes(cls, spec):
    res = []
    for label, thunk in probes(cls, spec):
        try:
            v = thunk()
            res.append((label, 'ok', repr(v)[:30]))
        except Exception as e:
            res.append((label, type(e).__name__, ''))
    return res


_mostly = st.sampled_from([True, True, False])
_member = st.fixed_dictionaries({'kind': st.sampled_from(['undecoratable'] + KINDS + ['rwproperty']), 'param': st.sampled_from(HINTS), 'ret': st.sampled_from(HINTS),
                                 'body': st.sampled_from(['echo', 'echo', 'int', 'str']),
                                 'ann_param': _mostly, 'ann_ret': _mostly, 'ann_del': _mostly})


def _cls(name, depth):
    members = st.lists(_member, min_size=1, max_size=5).map(
        lambda ms: [dict(m, name='%s%d' % (m['kind'][:2], i)) for i, m in enumerate(ms)])
    nested = st.lists(st.deferred(lambda: _cls('N%d' % depth, depth - 1)), max_size=1) if depth > 0 else st.just([])
    # nested classes come in every flavour of metaclass (plain type, ABCMeta, a user metaclass, EnumMeta, the Protocol metaclass)
    flavour = st.sampled_from(['plain', 'plain', 'abc', 'meta', 'enum', 'protocol', 'falsy', 'empty']) if depth < 2 else \
        st.sampled_from(['falsy', 'plain', 'plain', 'plain', 'empty', 'meta', 'abc'])   # the root class: the one handed to beartype() itself
    return st.fixed_dictionaries({'name': st.just(name), 'members': members, 'nested': nested, 'flavour': flavour,
                                  'dataclass': st.booleans() if depth == 2 else st.just(False)})


def _only_where_it_warns(spec, conf):
    """Members whose decoration fails are generated only under the configuration that turns decoration failures into warnings
    (elsewhere the failure is fatal for both routes and there is nothing to compare)."""
    spec = dict(spec)
    spec['members'] = [dict(m, kind='method', name='me' + m['name'][2:]) if m['kind'] == 'undecoratable' and conf != 'warn_on_decor' else m
                       for m in spec['members']]
    spec['nested'] = [_only_where_it_warns(n, conf) for n in spec.get('nested', ())]
    return spec


def strategy(tier):
    return st.fixed_dictionaries({'cls': _cls('K', 2), 'inherit': st.booleans(),
                                  'conf': st.sampled_from(['warn_on_decor', 'default', 'default', 'On', 'is_debug_off']),
                                  # the three spellings of decoration: beartype(conf=c)(K), bare @beartype (default conf), beartype(K, conf=c)
                                  'entry': st.sampled_from(['bare', 'confed', 'positional'])}).map(
        lambda d: {'spec': dict(_only_where_it_warns(d['cls'], d['conf']), inherit=d['inherit']), 'conf': d['conf'], 'entry': d['entry']})


def _walk(cls, spec, fn, path=''):
    for m in spec['members']:
        fn(cls, m, path)
    for nested in spec.get('nested', ()):
        _walk(getattr(cls, nested['name']), nested, fn, path + nested['name'] + '.')


def run_case(case):
    spec = case['spec']
    conf = {'default': BeartypeConf(), 'On': BeartypeConf(strategy=BeartypeStrategy.On),
            'is_debug_off': BeartypeConf(is_debug=False),
            'warn_on_decor': BeartypeConf(warning_cls_on_decorator_exception=UserWarning)}[case['conf']]
    deco = beartype(conf=conf)
    entry = case.get('entry', 'confed')
    if entry == 'bare' and case['conf'] == 'default':
        deco = beartype
    elif entry == 'positional':
        def deco(obj, conf=conf):
            return beartype(obj, conf=conf)
    fails, seen = [], set()
    nsA, src = load(spec)
    nsB, _ = load(spec)

    def fail(sig, detail):
        if sig not in seen:
            seen.add(sig)
            fails.append({'sig': sig, 'detail': '%s\n%s' % (src, detail)})
    KA, KB = nsA['K'], nsB['K']
    orig = {}

    def snap(cls, m, path):
        orig[path + m['name']] = vars(cls).get(m['name'])
    _walk(KA, spec, snap)
    parent_before = dict(vars(nsA['Parent']))
    with warnings.catch_warnings():
        warnings.simplefilter('ignore')
        try:
            got = deco(KA)
        except Exception as e:
            fail('class-decoration-error:%s' % type(e).__name__, repr(e))
            return {'fails': fails, 'nontrivial': True, 'classes': ['decoration-error'], 'evals': 1}
        hand_decorate(KB, deco)
    if got is not KA:
        fail('class-identity-lost', 'beartype(K) returned %r' % (got,))
    pa, pb = run_probes(KA, spec), run_probes(KB, spec)
    if pa != pb:
        d = next((a, b) for a, b in zip(pa, pb) if a != b)
        kind = d[0][0].split('(')[0].split('.')[-1].split(' ')[-1][:2]
        fail('routes-differ:%s:%s-vs-%s' % (kind, d[0][1], d[1][1]), 'class route %r, per-member route %r' % d)

    def check_member(cls, m, path):
        n, k = m['name'], m['kind']
        before = orig[path + n]
        after = vars(cls).get(n)
        if type(after) is not type(before):
            fail('descriptor-kind-changed:%s' % k, '%s%s: %r -> %r' % (path, n, type(before), type(after)))
            return
        pairs = []
        if isinstance(before, property):
            pairs = [(before.fget, after.fget), (before.fset, after.fset), (before.fdel, after.fdel)]
        else:
            pairs = [(underlying(before), underlying(after))]
        for fb, fa in pairs:
            if fb is None:
                continue
            if k in ('unannotated', 'no_type_check', 'undecoratable'):
                if fa is not fb:
                    fail('noop-not-identity:%s' % k, '%s%s was replaced by %r' % (path, n, fa))
                continue
            if not fb.__annotations__:
                continue
            if fa is fb:
                fail('member-not-decorated:%s' % k, '%s%s left undecorated' % (path, n))
                continue
            if getattr(fa, '__wrapped__', None) is not fb:
                fail('wrapped-not-original:%s' % k, '%s%s.__wrapped__ is %r' % (path, n, getattr(fa, '__wrapped__', None)))
            for attr in ('__name__', '__qualname__', '__doc__'):
                if getattr(fa, attr, None) != getattr(fb, attr, None):
                    fail('metadata-lost:%s' % attr, '%s%s %s: %r -> %r' % (path, n, attr, getattr(fb, attr, None), getattr(fa, attr, None)))
            try:
                if inspect.signature(fa) != inspect.signature(fb):
                    fail('signature-changed:%s' % k, '%s%s: %s -> %s' % (path, n, inspect.signature(fb), inspect.signature(fa)))
            except (TypeError, ValueError) as e:
                fail('signature-error:%s' % type(e).__name__, '%s%s: %r' % (path, n, e))
            if beartype(fa) is not fa:
                fail('redecorating-wrapper-not-identity', '%s%s' % (path, n))
    _walk(KA, spec, check_member)
    if dict(vars(nsA['Parent'])) != parent_before:
        fail('inherited-members-touched', 'Parent.__dict__ changed')
    # idempotence on the class
    snapshot = {}

    def snap2(cls, m, path):
        snapshot[path + m['name']] = vars(cls).get(m['name'])
    _walk(KA, spec, snap2)
    with warnings.catch_warnings():
        warnings.simplefilter('ignore')
        again = deco(KA)
    if again is not KA:
        fail('class-identity-lost', 'second beartype(K) returned %r' % (again,))

    def cmp2(cls, m, path):
        if not same_functions(vars(cls).get(m['name']), snapshot[path + m['name']]):
            fail('redecoration-not-idempotent:%s' % m['kind'], '%s%s replaced on second decoration' % (path, m['name']))
    _walk(KA, spec, cmp2)
    # O0: identity
    nsC, _ = load(spec)
    before = {}

    def snap3(cls, m, path):
        before[path + m['name']] = vars(cls).get(m['name'])
    _walk(nsC['K'], spec, snap3)
    with warnings.catch_warnings():
        warnings.simplefilter('ignore')
        k0 = beartype(conf=BeartypeConf(strategy=BeartypeStrategy.O0))(nsC['K'])
    if k0 is not nsC['K']:
        fail('O0-not-identity', 'class replaced under O0')

    def cmp3(cls, m, path):
        if not same_functions(vars(cls).get(m['name']), before[path + m['name']]):
            fail('O0-not-identity', '%s%s replaced under O0' % (path, m['name']))
    _walk(nsC['K'], spec, cmp3)
    kinds = set()
    _walk(KA, spec, lambda c, m, p: kinds.add(m['kind']))
    partial = set()
    _walk(KA, spec, lambda c, m, p: partial.add('partly-annotated:' + m['kind']) if m['kind'] in ('rwproperty', 'property', 'method', 'classmethod', 'staticmethod')
          and not (m.get('ann_param', True) and m.get('ann_ret', True) and m.get('ann_del', True)) else None)
    nontriv = len(kinds) >= 3 or bool(spec.get('nested')) or bool(spec.get('inherit'))
    return {'fails': fails, 'nontrivial': nontriv, 'evals': len(pa) + len(pb),
            'classes': ['nkinds:%d' % len(kinds), 'nested' if spec.get('nested') else 'flat', 'inherit' if spec.get('inherit') else 'noinherit',
                        'dataclass' if spec.get('dataclass') else 'plain', 'conf:' + case['conf']] + sorted(partial)[:3]}


_DASH_O = r'''
import sys
sys.path.insert(0, %r)
from beartype import beartype
def f(x: int) -> int: return x
class K:
    def m(self, x: int) -> int: return x
    @staticmethod
    def s(x: str) -> str: return x
before = dict(vars(K))
ok = beartype(f) is f and beartype(K) is K and all(vars(K)[n] is v for n, v in before.items() if not n.startswith('__'))
print('DASH-O-IDENTITY' if ok else 'DASH-O-NOT-IDENTITY')
'''


def extra_engine(tier, seed, agg, safe_run_case):
    """python -O: decoration is the identity (one child interpreter per run)."""
    import os
    from vlib.runner import REPO
    p = subprocess.run([sys.executable, '-O', '-B', '-c', _DASH_O % REPO], capture_output=True, text=True, timeout=120)
    agg.cases += 1
    agg.evals += 1
    if 'DASH-O-IDENTITY' not in p.stdout:
        agg.fails['python-O-not-identity'] = {'case': {'dash_O': True}, 'detail': (p.stdout + p.stderr)[-500:], 'count': 1,
                                             'size': 10, 'shard': None}
