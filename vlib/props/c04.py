"""C04 - the wrapper is transparent and checks each argument against its own parameter.

Oracle: the interpreter's own argument binder.  An undecorated *twin* with the identical signature
and body ``return dict(locals())`` says whether a call binds and which object is bound to which
parameter (``inspect.Signature.bind`` is not used: on 3.12.1 it rejects ``f(1, a1=1)`` for
``def f(a0, a1=0, /, **kw)``, which the interpreter accepts)."""
import itertools

from hypothesis import strategies as st

from beartype import beartype
from beartype.roar import BeartypeCallHintParamViolation, BeartypeCallHintReturnViolation

from vlib import hints as H

PID = 'C04'
LEVEL = 'exploration'
BUDGET = {'quick': 6000, 'thorough': 60000}
CAP_S = {'quick': 150, 'thorough': 3000}
EXHAUSTIVE = {'quick': False, 'thorough': False}
RULE = ('case = (signature from a grammar over the five parameter kinds (as a function, a bound method or the __call__ of a callable object) in legal order with any subset annotated by draw-independent '
        'hints and any defaults incl. defaults violating their own hint, optional return annotation, body returning / raising) x '
        '(call shape: positional and keyword values, missing, surplus, duplicate, keywords colliding with positional-only names, each '
        'value conforming or violating). The thorough tier additionally enumerates exhaustively all signatures with <= 3 parameters x '
        'all calls with <= 3 positional and <= 2 keyword arguments. non-trivial = >= 2 parameter kinds present and (a flexible parameter '
        'passed by keyword or excess *args/**kwargs values); distinct by canonical JSON')
ASSUMPTIONS = [
    'the binding oracle is CPython itself (undecorated twin function); names starting with __bear are reserved by beartype and not generated',
    'generator / coroutine signatures are covered by C08, not here',
]

HINTS = {'int': int, 'str': str, 'VBase': H.VBase, 'tup': tuple[int, str]}
KINDS = ('po', 'pk', 'va', 'ko', 'vk')
NAMES = {'po': ['a0', 'a1', 'self', 'args'], 'pk': ['b0', 'b1', 'kwargs', 'cls'], 'va': ['args', 'rest', 'a0x'],
         'ko': ['k0', 'k1', 'b0x', 'key'], 'vk': ['kwargs', 'kw', 'opts']}


class _Default:
    def __init__(self, name):
        self.name = name

    def __repr__(self):
        return '<default of %s>' % self.name


class _Result:
    def __repr__(self):
        return '<result>'


def make_value(tok):
    """Fresh object per call so that identity is meaningful."""
    if tok == 'int':
        return 1000 + len(_fresh)  # large ints are not cached by the interpreter ... (see below)
    raise AssertionError


_fresh = []


def fresh(tok):
    # every produced object is unique (large ints / fresh strings / fresh instances)
    n = len(_fresh) + 100000
    if tok == 'int':
        v = int('%d' % (n * 7919))
    elif tok == 'str':
        v = 's%d' % n
    elif tok == 'VBase':
        v = H.VDerived() if n % 2 else H.VBase()
    elif tok == 'tup':
        v = (n, 't%d' % n)
    elif tok == 'alien':
        v = H.VAlien()
    elif tok == 'none':
        v = None
    elif tok.startswith('falsy:'):
        # a falsy object of a type that violates the annotation (truthiness tests standing in for "was it passed" let it through)
        v = {'int': '', 'str': 0, 'VBase': 0, 'tup': ()}[tok[6:]]
        return v
    else:
        raise ValueError(tok)
    _fresh.append(v)
    if len(_fresh) > 5000:
        del _fresh[:2500]
    return v


def conforms(ann, v):
    if ann == 'tup':
        return isinstance(v, tuple) and len(v) == 2 and isinstance(v[0], int) and isinstance(v[1], str)
    return isinstance(v, HINTS[ann])


def build(sig):
    """sig: {'params': [{'name','kind','ann','default'}], 'ret': ann|None, 'body': 'ok'|'bad'|'raise'}
    -> (decorated, twin, log, result/exception object, defaults)."""
    parts, twin_parts, ns = [], [], {}
    defaults = {}
    seen_slash = seen_star = False
    params = sig['params']
    for idx, p in enumerate(params):
        k = p['kind']
        if k in ('ko',) and not seen_star and not any(q['kind'] == 'va' for q in params):
            parts.append('*')
            twin_parts.append('*')
            seen_star = True
        if k == 'va':
            seen_star = True
        text = {'po': '', 'pk': '', 'va': '*', 'ko': '', 'vk': '**'}[k] + p['name']
        ttext = text
        if p['ann']:
            ns['H_%d' % idx] = HINTS[p['ann']]
            text += ': H_%d' % idx
        if p['default'] and k not in ('va', 'vk'):
            d = _Default(p['name'])
            if p['default'] == 'ok' and p['ann']:
                d = fresh(p['ann'])
            elif p['default'] == 'bad':
                d = H.VAlien()
            defaults[p['name']] = d
            ns['D_%d' % idx] = d
            text += ' = D_%d' % idx if p['ann'] else '=D_%d' % idx
            ttext += '=D_%d' % idx
        parts.append(text)
        twin_parts.append(ttext)
        if k == 'po' and (idx + 1 == len(params) or params[idx + 1]['kind'] != 'po'):
            parts.append('/')
            twin_parts.append('/')
    log = []
    result = _Result()
    exc = ValueError('from the wrapped callable')
    ns.update(LOG=log, RESULT=result, EXC=exc, BAD=H.VAlien())
    ret = ''
    if sig.get('ret'):
        ns['H_ret'] = HINTS[sig['ret']]
        ret = ' -> H_ret'
        ns['RESULT'] = result = fresh(sig['ret'])
    body = {'ok': 'return RESULT', 'bad': 'return BAD', 'raise': 'raise EXC'}[sig.get('body', 'ok')]
    carrier = sig.get('carrier', 'function')
    if carrier == 'function':
        src = ('def orig(%s)%s:\n    LOG.append(dict(locals()))\n    %s\n'
               'def twin(%s):\n    return dict(locals())\n') % (', '.join(parts), ret, body, ', '.join(twin_parts))
        exec(compile(src, '<c04 %s>' % src.splitlines()[0], 'exec'), ns)
        return beartype(ns['orig']), ns['twin'], log, result, exc, defaults, ns['BAD'], src
    # the same signature as a bound method / as the __call__ of a callable object: beartype(obj.meth), beartype(obj) - the implicit
    # first parameter is bound already and is no parameter of the callable that is decorated
    mname = 'meth' if carrier == 'bound' else '__call__'
    src = ('class Carrier:\n  def %s(%s)%s:\n    LOG.append({k: v for k, v in locals().items() if k != "c04_carrier_self"})\n    %s\n'
           'def twin(%s):\n    return dict(locals())\n') % (mname, ', '.join(['c04_carrier_self'] + parts), ret, body, ', '.join(twin_parts))
    exec(compile(src, '<c04 %s>' % src.splitlines()[1], 'exec'), ns)
    obj = ns['Carrier']()
    deco = beartype(obj.meth) if carrier == 'bound' else beartype(obj)
    return deco, ns['twin'], log, result, exc, defaults, ns['BAD'], src.split('\n', 1)[1]


def _same_binding(a, b):
    if a.keys() != b.keys():
        return False
    for k in a:
        va, vb = a[k], b[k]
        if isinstance(va, tuple) and isinstance(vb, tuple) and type(va) is tuple:
            # *args tuple: a fresh tuple each call, items identical
            if len(va) != len(vb) or any(x is not y for x, y in zip(va, vb)):
                if va is not vb:
                    return False
        elif isinstance(va, dict) and isinstance(vb, dict):
            if va.keys() != vb.keys() or any(va[x] is not vb[x] for x in va):
                return False
        elif va is not vb:
            return False
    return True


def run_case(case):
    sig, call = case['sig'], case['call']
    try:
        deco, twin, log, result, exc, defaults, bad, src = build(sig)
    except SyntaxError:
        return {'fails': [], 'nontrivial': False, 'classes': ['discarded:syntax'], 'evals': 0,
                'extra': {'discarded_syntax': 1}}
    args = [fresh(t) for t in call['args']]
    kwargs = {k: fresh(t) for k, t in call['kwargs']}
    fails = []

    def fail(sig_, detail):
        fails.append({'sig': sig_, 'detail': '%s call args=%r kwargs=%r: %s' % (src.splitlines()[0], args, kwargs, detail)})

    # oracle: the interpreter's own binder
    try:
        bound = twin(*args, **kwargs)
        binds = True
    except TypeError:
        bound, binds = None, False
    violating = []
    if binds:
        for p in sig['params']:
            if not p['ann']:
                continue
            v = bound[p['name']]
            if p['kind'] == 'va':
                vals = list(v)
            elif p['kind'] == 'vk':
                vals = list(v.values())
            else:
                if p['name'] in defaults and v is defaults[p['name']]:
                    continue  # unpassed default: never checked
                vals = [v]
            if any(not conforms(p['ann'], x) for x in vals):
                violating.append(p['name'])
    try:
        got = deco(*args, **kwargs)
        raised = None
    except BaseException as e:  # noqa: B902 - everything the wrapper lets escape is of interest
        got, raised = None, e
    ran = len(log)
    kinds = sorted({p['kind'] for p in sig['params']})
    shape = 'binds' if binds else 'nobind'
    if not binds:
        if raised is None:
            fail('unbindable-call-succeeded', 'call does not bind but returned %r' % (got,))
        elif not isinstance(raised, (TypeError, BeartypeCallHintParamViolation)):
            fail('unbindable-call-raised:%s' % type(raised).__name__, '%r' % (raised,))
        if ran:
            fail('unbindable-call-ran-original', 'original ran %d times' % ran)
    elif violating:
        shape = 'violates'
        if not isinstance(raised, BeartypeCallHintParamViolation):
            fail('violating-argument-accepted' if raised is None else 'violating-argument-raised:%s' % type(raised).__name__,
                 'parameters %r violate, got %r / %r' % (violating, got, raised))
        else:
            msg = str(raised)
            if not any(('parameter %s=' % n) in msg or ('parameter *%s=' % n) in msg or ('parameter **%s=' % n) in msg or
                       ('"%s"' % n) in msg for n in violating):
                fail('violation-names-wrong-parameter', 'violating %r but message: %s' % (violating, msg[:300]))
        if ran:
            fail('original-ran-despite-violation', 'original ran %d times' % ran)
    else:
        body = sig.get('body', 'ok')
        if ran != 1:
            fail('original-run-count', 'original ran %d times (raised=%r)' % (ran, raised))
        elif not _same_binding(log[0], bound):
            fail('arguments-altered', 'original saw %r, interpreter binds %r' % (log[0], bound))
        if body == 'raise':
            if raised is not exc:
                fail('exception-not-propagated', 'expected the original exception object, got %r / %r' % (got, raised))
        elif body == 'bad' and sig.get('ret'):
            shape = 'return-violates'
            if not isinstance(raised, BeartypeCallHintReturnViolation):
                fail('violating-return-accepted', 'returned %r raised %r' % (got, raised))
        else:
            want = bad if body == 'bad' else result
            if raised is not None:
                fail('conforming-call-raised:%s' % type(raised).__name__, '%r' % (raised,))
            elif got is not want:
                fail('result-altered', 'expected %r got %r' % (want, got))
    kw_flex = any(k in [p['name'] for p in sig['params'] if p['kind'] == 'pk'] for k, _ in call['kwargs'])
    excess = binds and any((p['kind'] == 'va' and len(bound[p['name']]) > 0) or (p['kind'] == 'vk' and len(bound[p['name']]) > 0)
                           for p in sig['params'])
    seen, out = set(), []
    for f in fails:
        if f['sig'] not in seen:
            seen.add(f['sig'])
            out.append(f)
    return {'fails': out, 'nontrivial': len(kinds) >= 2 and (kw_flex or excess),
            'classes': ['shape:' + shape, 'kinds:' + '+'.join(kinds), 'nparams:%d' % len(sig['params'])], 'evals': 1}


# ----------------------------------------------------------------- generation
@st.composite
def _sig(draw):
    counts = {'po': draw(st.integers(0, 2)), 'pk': draw(st.integers(0, 3)), 'va': draw(st.integers(0, 1)),
              'ko': draw(st.integers(0, 2)), 'vk': draw(st.integers(0, 1))}
    params, used = [], set()
    default_started = False
    for k in KINDS:
        for _ in range(counts[k]):
            name = draw(st.sampled_from([n for n in NAMES[k] if n not in used] or ['p%d' % len(used)]))
            used.add(name)
            ann = draw(st.sampled_from([None, 'int', 'int', 'str', 'VBase', 'tup']))
            default = None
            if k in ('po', 'pk'):
                if default_started or draw(st.integers(0, 2)) == 0:
                    default_started = True
                    default = draw(st.sampled_from(['plain', 'ok', 'bad']))
            elif k == 'ko':
                default = draw(st.sampled_from([None, 'plain', 'ok', 'bad']))
            params.append({'name': name, 'kind': k, 'ann': ann, 'default': default})
    return {'params': params, 'ret': draw(st.sampled_from([None, None, 'int', 'VBase'])),
            'body': draw(st.sampled_from(['ok', 'ok', 'ok', 'bad', 'raise']))}


@st.composite
def _call(draw, sig):
    """Mostly calls that bind (built by construction: required parameters supplied, flexible ones
    positionally or by keyword), then optionally broken by one mutation (missing, surplus, duplicate,
    keyword colliding with a positional-only name)."""
    params = sig['params']

    def tok(p):
        if p is None or not p['ann']:
            return draw(st.sampled_from(['int', 'str', 'alien', 'none']))
        return draw(st.sampled_from([p['ann'], p['ann'], p['ann'], p['ann'], p['ann'], 'alien', 'none', 'falsy:' + p['ann']]))
    po = [p for p in params if p['kind'] == 'po']
    pk = [p for p in params if p['kind'] == 'pk']
    ko = [p for p in params if p['kind'] == 'ko']
    va = next((p for p in params if p['kind'] == 'va'), None)
    vk = next((p for p in params if p['kind'] == 'vk'), None)
    args, kwargs = [], []
    npos_pk = draw(st.integers(0, len(pk)))      # how many flexible parameters go positionally
    seq = po + pk[:npos_pk]
    # trailing defaulted positionals may be omitted
    cut = len(seq)
    while cut > 0 and seq[cut - 1]['default'] and draw(st.booleans()):
        cut -= 1
    if cut < len(seq) and npos_pk and cut < len(po) + npos_pk:
        npos_pk = max(0, cut - len(po))
    args = [tok(p) for p in seq[:cut]]
    for p in pk[npos_pk:] + ko:
        if p['default'] and draw(st.booleans()):
            continue
        kwargs.append([p['name'], tok(p)])
    if va is not None and cut == len(po) + len(pk) and draw(st.booleans()):
        args += [tok(va) for _ in range(draw(st.integers(1, 3)))]
    if vk is not None and draw(st.booleans()):
        used = {k for k, _ in kwargs} | {p['name'] for p in params if p['kind'] != 'po'}
        for name in draw(st.lists(st.sampled_from(['extra', 'zz', 'a0', 'self', 'args'] + [p['name'] for p in po]),
                                  max_size=3, unique=True)):
            if name not in used:
                kwargs.append([name, tok(vk)])
    mut = draw(st.sampled_from(['none', 'none', 'none', 'none', 'drop', 'surplus-pos', 'surplus-kw', 'dup', 'collide']))
    if mut == 'drop' and (args or kwargs):
        if args and (not kwargs or draw(st.booleans())):
            args.pop(draw(st.integers(0, len(args) - 1)))
        else:
            kwargs.pop(draw(st.integers(0, len(kwargs) - 1)))
    elif mut == 'surplus-pos':
        args.append(tok(va))
    elif mut == 'surplus-kw':
        kwargs.append(['surplus_kw', tok(vk)])
    elif mut == 'dup' and seq[:cut]:
        p = draw(st.sampled_from(seq[:cut]))
        if p['name'] not in [k for k, _ in kwargs]:
            kwargs.append([p['name'], tok(p)])
    elif mut == 'collide' and po:
        p = draw(st.sampled_from(po))
        if p['name'] not in [k for k, _ in kwargs]:
            kwargs.append([p['name'], tok(vk)])
    kwargs = draw(st.permutations(kwargs))
    return {'args': args, 'kwargs': [list(k) for k in kwargs]}


@st.composite
def _case(draw, tier):
    sig = draw(_sig())
    sig['carrier'] = draw(st.sampled_from(['function', 'function', 'bound', 'callobj']))
    return {'sig': sig, 'call': draw(_call(sig))}


def strategy(tier):
    return _case(tier)


# ----------------------------------------------------------------- exhaustive engine (thorough)
def _enum_sigs():
    anns = [None, 'int']
    for n in range(0, 4):
        for kinds in itertools.combinations_with_replacement(range(5), n):
            ks = [KINDS[i] for i in kinds]
            if ks.count('va') > 1 or ks.count('vk') > 1:
                continue
            for annsel in itertools.product(anns, repeat=n):
                for dflt in (False, True):
                    params = []
                    for j, (k, a) in enumerate(zip(ks, annsel)):
                        d = 'plain' if (dflt and k in ('po', 'pk', 'ko')) else None
                        params.append({'name': 'p%d' % j, 'kind': k, 'ann': a, 'default': d})
                    yield {'params': params, 'ret': None, 'body': 'ok'}


def _enum_calls(sig):
    names = [p['name'] for p in sig['params'] if p['kind'] not in ('va', 'vk')] + ['zz']
    for npos in range(0, 4):
        for pv in itertools.product(['int', 'alien'], repeat=npos):
            for nkw in range(0, 3):
                for kwn in itertools.combinations(names, nkw):
                    for kv in itertools.product(['int', 'alien'], repeat=nkw):
                        yield {'args': list(pv), 'kwargs': [[k, v] for k, v in zip(kwn, kv)]}


def _exh_worker(chunk):
    import sys
    mod = sys.modules[__name__]
    from vlib.runner import Agg, safe_run_case
    agg = Agg()
    for sig in chunk:
        for call in _enum_calls(sig):
            safe_run_case(mod, {'sig': sig, 'call': call}, agg)
    agg.samples = agg.samples[:2]
    return agg


def extra_engine(tier, seed, agg, safe_run_case):
    if tier != 'thorough':
        return
    import multiprocessing
    sigs = list(_enum_sigs())
    chunks = [sigs[i::64] for i in range(64)]
    with multiprocessing.get_context('fork').Pool(16) as pool:
        for sub in pool.imap_unordered(_exh_worker, chunks):
            agg.merge(sub)
    agg.extra['exhaustive_signatures'] = len(sigs)
    agg.extra['exhaustive_note'] = 1
