"""C06 - hook scoping follows the nearest registered package after any hook history.

A history (list of hook operations) is executed step by step in a forked pristine process next to a
30-line declarative model; after every step every name of a small dotted alphabet is queried through
get_package_conf_or_none and the presence of beartype's path hook in sys.path_hooks is observed."""
import sys

from hypothesis import strategies as st

from vlib import isolate

import beartype  # noqa: F401  pre-imported (not used) so that forked children do not pay the import cost
import beartype.claw  # noqa: F401
import beartype.claw._package.clawpkgtrie  # noqa: F401

PID = 'C06'
LEVEL = 'exploration'
BUDGET = {'quick': 500, 'thorough': 30000}
CAP_S = {'quick': 200, 'thorough': 3000}
MAX_SHARDS = 3
RULE = ('case = history of <= 14 (quick) / 30 (thorough) operations among beartype_all(conf), beartype_package(name, conf), '
        'beartype_packages(names, conf), beartype_this_package(conf) called from a module of a generated package, enter/exit of '
        'beartyping(conf) blocks (nested, LIFO, interleaved with global registrations), with confs from a pool of 10 (six carry '
        'claw_skip_package_names, incl. ancestor/descendant pairs in both orders) and names from a dotted alphabet incl. look-alike prefixes (a, a.b, a.b.c, ab, b, b.c) and '
        'built-in-excluded packages. Executed in a forked pristine process in lock step with a declarative model (registered map, '
        'all-conf, skip set, block stack); after every step all 15 names are queried and the path hook is observed. '
        'non-trivial = the history contains a conflict, a nested beartyping, or registrations of a package and one of its ancestors '
        'with different confs; distinct by canonical JSON')
ASSUMPTIONS = [
    'the configuration applied to a module is the registered one with warning_cls_on_decorator_exception defaulted to '
    'BeartypeClawDecorWarning (documented); configurations are compared on all other options',
    'package registrations made inside a beartyping() block are global and persist after the block (only the beartype_all state, '
    'the skip list and the path hook are restored)',
]

NAMES = ['a', 'a.b', 'a.b.c', 'a.b.d', 'a.bc', 'a.d', 'ab', 'ab.c', 'b', 'b.c', 'b.d', 'c', 'pydantic', 'pydantic.v1', 'urllib3x']
REG_NAMES = ['a', 'a.b', 'a.b.c', 'ab', 'b', 'b.c', 'pydantic', 'c']
BUILTIN_EXCLUDED = ('_colorize', 'pydantic', 'urllib3', 'xarray')
NCONF = 10


def _confs():
    from beartype import BeartypeConf, BeartypeStrategy
    return [
        BeartypeConf(),
        BeartypeConf(claw_is_pep526=False),
        BeartypeConf(strategy=BeartypeStrategy.On),
        BeartypeConf(claw_skip_package_names=('b',)),
        BeartypeConf(claw_is_pep526=False, claw_skip_package_names=('a.b', 'c')),
        BeartypeConf(warning_cls_on_decorator_exception=UserWarning),
        # skip lists naming a package and its own ancestor / descendant, in both orders and across configurations
        BeartypeConf(claw_skip_package_names=('a.b.c', 'a.b')),
        BeartypeConf(claw_skip_package_names=('a',)),
        BeartypeConf(claw_skip_package_names=('b.c',)),
        BeartypeConf(strategy=BeartypeStrategy.On, claw_skip_package_names=('b', 'b.c', 'ab.c')),
    ]


SKIPS = {3: ['b'], 4: ['a.b', 'c'], 6: ['a.b.c', 'a.b'], 7: ['a'], 8: ['b.c'], 9: ['b', 'b.c', 'ab.c']}


def _key(conf):
    """Identity of an applied configuration modulo the documented warning-class default."""
    if conf is None:
        return None
    kw = dict(conf.kwargs)
    w = kw.pop('warning_cls_on_decorator_exception', None)
    wn = getattr(w, '__name__', repr(w))
    if wn in ('BeartypeClawDecorWarning', '_BeartypeConfReduceDecoratorExceptionToWarningDefault'):
        wn = 'default'
    return repr(sorted((k, repr(v)) for k, v in kw.items())) + wn


op_strategy = st.one_of(
    st.tuples(st.just('all'), st.integers(0, NCONF - 1)),
    st.tuples(st.just('pkg'), st.sampled_from(REG_NAMES), st.integers(0, NCONF - 1)),
    st.tuples(st.just('pkg'), st.sampled_from(REG_NAMES), st.integers(0, NCONF - 1)),
    st.tuples(st.just('pkgs'), st.lists(st.sampled_from(REG_NAMES), min_size=1, max_size=3, unique=True),
              st.integers(0, NCONF - 1)),
    st.tuples(st.just('this'), st.sampled_from(['a', 'a.b', 'b', 'ab']), st.integers(0, NCONF - 1)),
    st.tuples(st.just('enter'), st.integers(0, NCONF - 1)),
    st.tuples(st.just('exit')),
    st.tuples(st.just('exit')),
).map(list)


def strategy(tier):
    return st.lists(op_strategy, min_size=1, max_size=14 if tier == 'quick' else 30).map(lambda ops: {'ops': ops})


# ------------------------------------------------------------------ model
class Model:
    def __init__(self, leaky_skip=False):
        # leaky_skip=True models known finding C06/skip-list-survives-beartyping-exit (skip lists registered by a
        # beartyping() block are not restored on exit); it is only used to keep searching past that finding.
        self.leaky_skip = leaky_skip
        self.all_conf = None
        self.reg = {}
        self.skip = set()
        self.stack = []

    def snapshot(self):
        return (self.all_conf, dict(self.reg), set(self.skip))

    def lookup(self, name):
        parts = name.split('.')
        prefixes = ['.'.join(parts[:i]) for i in range(1, len(parts) + 1)]
        if any(p in self.skip for p in prefixes) or parts[0] in BUILTIN_EXCLUDED:
            return None
        for p in reversed(prefixes):
            if p in self.reg:
                return self.reg[p]
        return self.all_conf

    def hooked(self):
        return self.all_conf is not None or bool(self.reg)

    def apply(self, op):
        """-> 'ok' | 'conflict' | 'skip-op' """
        k = op[0]
        if k == 'all':
            c = op[1]
            if self.all_conf is not None and self.all_conf != c:
                return 'conflict'
            self.all_conf = c
            self.skip |= set(SKIPS.get(c, ()))
            return 'ok'
        if k in ('pkg', 'this', 'pkgs'):
            names = op[1] if k == 'pkgs' else [op[1]]
            c = op[2]
            if any(n in self.reg and self.reg[n] != c for n in names):
                return 'conflict'
            for n in names:
                self.reg[n] = c
            self.skip |= set(SKIPS.get(c, ()))
            return 'ok'
        if k == 'enter':
            self.stack.append((self.all_conf, op[1], set(self.skip)))
            self.all_conf = op[1]
            self.skip |= set(SKIPS.get(op[1], ()))
            return 'ok'
        if k == 'exit':
            if not self.stack:
                return 'skip-op'
            saved, c, skip = self.stack.pop()
            if self.all_conf == c:
                self.all_conf = saved
            if not self.leaky_skip:
                self.skip = skip | (self.skip - skip - set(SKIPS.get(c, ())))
            return 'ok'
        raise ValueError(op)


# ------------------------------------------------------------------ child
def _child(case):
    import warnings
    from beartype.claw import beartype_all, beartype_package, beartype_packages, beartyping
    from beartype.claw._package.clawpkgtrie import get_package_conf_or_none
    from beartype.roar import BeartypeClawHookException
    warnings.simplefilter('ignore')
    confs = _confs()
    keys = [_key(c) for c in confs]
    model = Model()
    leaky = Model(leaky_skip=True)
    blocks = []
    trace = []
    hooks_before = list(sys.path_hooks)

    def observe():
        out = {}
        for n in NAMES:
            got = get_package_conf_or_none(n)
            gk = _key(got)
            out[n] = None if got is None else (keys.index(gk) if gk in keys else 'unknown:' + gk[:80])
        hook = any(h not in hooks_before for h in sys.path_hooks)
        return out, hook

    for step, op in enumerate(case['ops']):
        before = model.snapshot()
        expect = model.apply(op)
        leaky.apply(op)
        if expect == 'skip-op':
            continue
        k = op[0]
        raised = None
        try:
            if k == 'all':
                beartype_all(conf=confs[op[1]])
            elif k == 'pkg':
                beartype_package(op[1], conf=confs[op[2]])
            elif k == 'pkgs':
                beartype_packages(tuple(op[1]), conf=confs[op[2]])
            elif k == 'this':
                g = {'__name__': op[1] + '.mod', '__package__': op[1], 'CONF': confs[op[2]]}
                exec('from beartype.claw import beartype_this_package\nbeartype_this_package(conf=CONF)\n', g)
            elif k == 'enter':
                cm = beartyping(conf=confs[op[1]])
                cm.__enter__()
                blocks.append(cm)
            elif k == 'exit':
                blocks.pop().__exit__(None, None, None)
        except BeartypeClawHookException as e:
            raised = 'BeartypeClawHookException'
        except Exception as e:
            raised = type(e).__name__ + ': ' + str(e)[:200]
        obs, hook = observe()
        want = {n: model.lookup(n) for n in NAMES}
        trace.append({'step': step, 'op': op, 'expect': expect, 'raised': raised, 'obs': obs, 'want': want,
                      'want_leaky': {n: leaky.lookup(n) for n in NAMES},
                      'hook': hook, 'want_hook': model.hooked(), 'nblocks': len(model.stack)})
    return trace


def _ancestor_pair(ops):
    reg = {}
    for op in ops:
        if op[0] in ('pkg', 'this'):
            reg.setdefault(op[1], set()).add(op[2])
        elif op[0] == 'pkgs':
            for n in op[1]:
                reg.setdefault(n, set()).add(op[2])
    for n in reg:
        for m in reg:
            if m != n and m.startswith(n + '.') and reg[n] != reg[m]:
                return True
    return False


def run_case(case):
    trace = isolate.call(_child, case, timeout=60)
    if isinstance(trace, dict) and trace.get('timeout'):
        return {'fails': [{'sig': 'timeout', 'detail': repr(case)}], 'nontrivial': True}
    fails, seen = [], set()

    def fail(sig, detail):
        if sig not in seen:
            seen.add(sig)
            fails.append({'sig': sig, 'detail': detail})
    conflict = nested = False
    ref = 'want'
    hist = []
    for t in trace:
        op = t['op']
        hist.append(op)
        k = op[0]
        if t['nblocks'] >= 2:
            nested = True
        if t['expect'] == 'conflict':
            conflict = True
            if t['raised'] != 'BeartypeClawHookException':
                fail('conflict-not-raised:%s' % k, 'step %d %r should raise BeartypeClawHookException, got %r; history %r' % (
                    t['step'], op, t['raised'], hist))
        elif t['raised'] is not None:
            fail('unexpected-raise:%s:%s' % (k, t['raised'].split(':')[0]), 'step %d %r raised %s; history %r' % (
                t['step'], op, t['raised'], hist))
        bad = {n: (t['obs'][n], t[ref][n]) for n in NAMES if t['obs'][n] != t[ref][n]}
        if bad and ref == 'want' and t['obs'] == t['want_leaky']:
            fail('lookup-differs:skip-list-survives-beartyping-exit', 'step %d %r: name -> (observed, model) %r; history %r' % (
                t['step'], op, bad, hist))
            ref = 'want_leaky'      # keep checking the rest of the history against the leaky model
            bad = {}
        if bad:
            after = 'after-conflict' if t['expect'] == 'conflict' else 'after-' + k
            # root-cause label: which part of the state disagrees
            skipnames = {n for n, (got, want) in bad.items() if got is None and want is not None}
            unskipped = {n for n, (got, want) in bad.items() if got is not None and want is None}
            lab = 'skipped-too-much' if skipnames and not unskipped and len(skipnames) == len(bad) else \
                  'checked-too-much' if unskipped and len(unskipped) == len(bad) else 'wrong-conf'
            fail('lookup-differs:%s:%s' % (after, lab), 'step %d %r: name -> (observed, model) %r; history %r' % (
                t['step'], op, bad, hist))
            break  # later steps inherit the divergence
        if t['hook'] != t['want_hook']:
            fail('path-hook:%s:%s' % ('present-but-nothing-registered' if t['hook'] else 'missing', 'after-' + k),
                 'step %d %r: hook present=%r, model says %r; history %r' % (t['step'], op, t['hook'], t['want_hook'], hist))
            break
    nontriv = conflict or nested or _ancestor_pair(case['ops'])
    classes = ['len%d' % min(len(case['ops']) // 5 * 5, 30)]
    if conflict:
        classes.append('has-conflict')
    if nested:
        classes.append('nested-beartyping')
    if any(op[0] == 'enter' for op in case['ops']):
        classes.append('has-beartyping')
    if _ancestor_pair(case['ops']):
        classes.append('ancestor-pair')
    return {'fails': fails, 'nontrivial': nontriv, 'classes': classes, 'evals': len(trace)}
