"""C07 - string and postponed annotations are checked exactly like evaluated ones."""
import sys
import types
import warnings

from hypothesis import strategies as st

from vlib import sampler

PID = 'C07'
LEVEL = 'exploration'
BUDGET = {'quick': 1500, 'thorough': 60000}
CAP_S = {'quick': 150, 'thorough': 3000}
RULE = ('case = (hint over user classes defined in the generated module, rendered as source text: the class itself, Optional / Union / '
        'X | None / list / dict / tuple[..., ...] / type[...] / nested combinations, and - the class being a user generic - subscripted inside the text ("Target[int]", alone or wrapped); placement: module-level function, method of a class '
        'nested 0-2 deep (decorated individually or through the class; referring to the class itself, to a class-level alias shadowing an '
        'outer one, or to a sibling class of the same nested body), closure 1-2 functions deep; spelling: string literal or '
        '"from __future__ import annotations"; order: the referenced class defined before the function, after it, or after the first '
        'call). A module is generated per case and executed under a registered module name. Differential oracle: for every probe object '
        'the string / postponed variant gives the verdict and violation class of the variant with evaluated annotations; calling before '
        'the referenced name exists raises a beartype forward-reference exception and the same wrapper works once the name is defined. '
        'Spellings: whole string, postponed, or partial (only the class name quoted inside an evaluated parent: list[\'Target\']); half of the cases execute the same source once before as a decoy module (same annotation text, other classes). non-trivial = forward (defined-later) reference, or class / closure scope; distinct by canonical JSON')
ASSUMPTIONS = [
    'only names that Python itself would resolve for the evaluated spelling are generated (simple names; the enclosing class through its own name)',
    'the reference variant evaluates annotations eagerly with the classes defined first',
]

WRAPS = ['bare', 'Optional', 'UnionInt', 'PipeNone', 'list', 'dict', 'tuplevar', 'type', 'listOptional', 'dictlist', 'tuplefix']
# the referenced class is a user generic and is subscripted inside the annotation text ('Target[int]'); generated for the placements
# whose class block the generator controls (module, closures, sibling of a nested class)
SUBBED = {'selfsub': 'bare', 'selfsub-Optional': 'Optional', 'selfsub-list': 'list', 'selfsub-dict': 'dict'}
SUBBED_PLACES = ('module', 'closure', 'closure2', 'nested-sibling', 'nested2-sibling')


def ann_source(wrap, name):
    if wrap in SUBBED:
        return ann_source(SUBBED[wrap], '%s[int]' % name)
    return {'bare': name, 'Optional': 'Optional[%s]' % name, 'UnionInt': 'Union[%s, int]' % name, 'PipeNone': '%s | None' % name,
            'list': 'list[%s]' % name, 'dict': 'dict[str, %s]' % name, 'tuplevar': 'tuple[%s, ...]' % name, 'type': 'type[%s]' % name,
            'listOptional': 'list[Optional[%s]]' % name, 'dictlist': 'dict[str, list[%s]]' % name,
            'tuplefix': 'tuple[int, %s]' % name}[wrap]


def probe_values(wrap, good, bad):
    """[(label, value)] - objects conforming and violating for the wrapper around class instances good / bad."""
    g, b = good, bad
    wrap = SUBBED.get(wrap, wrap)
    table = {
        'bare': [g, b, 3, None], 'Optional': [g, None, b, 's'], 'UnionInt': [g, 5, b, 's', None], 'PipeNone': [g, None, b, 0],
        'list': [[g], [g, g], [b], [], 'x', [3]], 'dict': [{'k': g}, {'k': b}, {}, {1: g}, [g]],
        'tuplevar': [(g,), (g, g), (b,), (), [g]], 'type': [type(g), type(b), int, g],
        'listOptional': [[g, None], [None], [b], [3]], 'dictlist': [{'k': [g]}, {'k': [b]}, {'k': g}, {}],
        'tuplefix': [(1, g), (1, b), (g, 1), (1,), (1, g, g)],
    }
    return list(enumerate(table[wrap]))


HEADER = 'import typing\nfrom typing import Optional, Union\nfrom beartype import beartype\nT = typing.TypeVar("T")\n'


def render(case, spelling):
    """Source of the module for one spelling ('eval' | 'str' | 'future').  Defines FUNC (callable taking one object),
    and classes reachable as module attributes GOOD / BAD factories."""
    place, wrap, order = case['place'], case['wrap'], case['order']
    lines = []
    if spelling == 'future':
        lines.append('from __future__ import annotations')
    lines.append(HEADER)

    def ann(name):
        if spelling == 'partial':
            # only the class name is a string, inside an evaluated parent: list['Target'], Optional['Target[int]'], ...
            if wrap in SUBBED:
                return ann_source(SUBBED[wrap], repr('%s[int]' % name))
            return ann_source(wrap, repr(name))
        src = ann_source(wrap, name)
        return repr(src) if spelling == 'str' else src
    classes_first = order == 'class-first' or spelling == 'eval'
    # the referenced class may itself carry hints for its contents (class Target(list[int])): an instance holding a wrong item
    # must be rejected through the string spelling exactly as through the evaluated one
    flavour = case.get('flavour', 'plain') if wrap not in SUBBED else 'plain'
    gen = '(typing.Generic[T])' if wrap in SUBBED else {'plain': '', 'listint': '(list[int])', 'dictstrint': '(dict[str, int])'}[flavour]
    cls_block = ['class Target%s:' % gen, '    pass', 'class Other:', '    pass', 'class Sub(Target):', '    pass']
    if place == 'module':
        func = ['@beartype', 'def FUNC(p: %s) -> %s:' % (ann('Target'), ann('Target')), '    return p']
        if classes_first:
            lines += cls_block + func
        else:
            lines += func + ['# CLASSES-LATER'] + cls_block
    elif place in ('method', 'method-classdeco', 'nested-method', 'nested2-method'):
        # the method refers to its own (innermost enclosing) class, which does not exist yet while the body executes
        depth = {'method': 0, 'method-classdeco': 0, 'nested-method': 1, 'nested2-method': 2}[place]
        names = ['Outer', 'Mid', 'Inner'][:depth + 1]
        lines += ['class Other:', '    pass']
        ind = ''
        classdeco = place != 'method'   # nested classes are decorated through the outermost class (beartype then
        # knows the stack of enclosing classes; a nested class is not reachable by its simple name under Python's own
        # scoping rules, so an individually decorated method of a nested class is outside the generated domain)
        for i, n in enumerate(names):
            if classdeco and i == 0:
                lines.append(ind + '@beartype')
            lines.append('%sclass %s:' % (ind, n))
            ind += '    '
        target = names[-1]
        if spelling == 'eval':
            # evaluated annotations cannot name the class under construction: the reference uses a post-hoc patch
            lines += ['%sdef meth(self, p):' % ind, '%s    return p' % ind]
        else:
            if not classdeco:
                lines.append(ind + '@beartype')
            lines += ['%sdef meth(self, p: %s) -> %s:' % (ind, ann(target), ann(target)), '%s    return p' % ind]
        path = '.'.join(names)
        lines += ['Target = %s' % path]
        if spelling == 'eval':
            lines += ['def _m(self, p: %s) -> %s:' % (ann_source(wrap, 'Target'), ann_source(wrap, 'Target')), '    return p',
                      '_m.__name__ = "meth"; _m.__qualname__ = "%s.meth"' % path, 'Target.meth = beartype(_m)']
        lines += ['class Sub(Target):', '    pass', 'FUNC = Target().meth']
    elif place in ('nested-alias', 'nested2-alias'):
        # a class-level alias that exists only in (and shadows an outer alias from) the body of the nested class that defines the
        # method; evaluated annotations inside a class body resolve it to the innermost alias, so the reference is direct
        depth = 1 if place == 'nested-alias' else 2
        names = ['Outer', 'Mid', 'Inner'][:depth + 1]
        lines += cls_block
        ind = ''
        for i, n in enumerate(names):
            if i == 0:
                lines.append('@beartype')
            lines.append('%sclass %s:' % (ind, n))
            ind += '    '
            lines.append('%sKey = %s' % (ind, 'Target' if i == len(names) - 1 else 'str'))
        lines += ['%sdef meth(self, p: %s) -> %s:' % (ind, ann('Key'), ann('Key')), '%s    return p' % ind]
        lines += ['FUNC = %s().meth' % '.'.join(names)]
    elif place in ('nested-sibling', 'nested2-sibling'):
        # a sibling class defined in the same nested class body as the method (before it, or - for string spellings - after it)
        depth = 1 if place == 'nested-sibling' else 2
        names = ['Outer', 'Mid', 'Inner'][:depth + 1]
        lines += ['class Other:', '    pass']
        ind = ''
        for i, n in enumerate(names):
            if i == 0:
                lines.append('@beartype')
            lines.append('%sclass %s:' % (ind, n))
            ind += '    '
        slot = ['%sclass Slot%s:' % (ind, gen), '%s    pass' % ind]
        meth = ['%sdef meth(self, p: %s) -> %s:' % (ind, ann('Slot'), ann('Slot')), '%s    return p' % ind]
        lines += (slot + meth) if classes_first else (meth + slot)
        path = '.'.join(names)
        lines += ['Target = %s.Slot' % path, 'class Sub(Target):', '    pass', 'FUNC = %s().meth' % path]
    elif place in ('closure', 'closure2'):
        depth = 1 if place == 'closure' else 2
        ind = ''
        for i in range(depth):
            lines.append('%sdef make%d():' % (ind, i))
            ind += '    '
        cls = ['%sclass Target%s:' % (ind, gen), '%s    pass' % ind, '%sclass Other:' % ind, '%s    pass' % ind,
               '%sclass Sub(Target):' % ind, '%s    pass' % ind]
        func = ['%s@beartype' % ind, '%sdef inner(p: %s) -> %s:' % (ind, ann('Target'), ann('Target')), '%s    return p' % ind]
        lines += (cls + func) if classes_first else (func + cls)
        lines.append('%sreturn inner, Target, Other, Sub' % ind)
        for i in reversed(range(depth - 1)):
            ind = ind[:-4]
            lines.append('%sreturn make%d()' % (ind, i + 1))
        # the classes stay local names of the enclosing function: exported under other module-level names (a module global of the
        # same name would let a wrong module-scope lookup succeed by coincidence)
        lines.append('FUNC, CLS_TARGET, CLS_OTHER, CLS_SUB = make0()')
    return '\n'.join(lines) + '\n'


_N = [0]


def load(src, stop_before_classes=False):
    _N[0] += 1
    name = 'c07_generated_%d' % _N[0]
    mod = types.ModuleType(name)
    mod.__file__ = '<c07 %s>' % name
    sys.modules[name] = mod
    try:
        if stop_before_classes and '# CLASSES-LATER' in src:
            first, second = src.split('# CLASSES-LATER', 1)
            exec(compile(first, mod.__file__, 'exec'), mod.__dict__)
            return mod, second
        exec(compile(src, mod.__file__, 'exec'), mod.__dict__)
        return mod, None
    finally:
        if len(sys.modules) > 0 and _N[0] % 200 == 0:
            for k in [k for k in sys.modules if k.startswith('c07_generated_')][:-50]:
                del sys.modules[k]


def verdicts(mod, wrap):
    out = []
    good, bad = getattr(mod, 'CLS_TARGET', None) or mod.Target, getattr(mod, 'CLS_OTHER', None) or mod.Other
    target_cls = good
    good, bad = good(), bad()
    sub = (getattr(mod, 'CLS_SUB', None) or mod.Sub)()
    deep = None
    if issubclass(target_cls, list):
        deep = target_cls(['not an int'])
    elif issubclass(target_cls, dict):
        deep = target_cls({'k': 'not an int'})
    extra = [(200 + i, v) for i, v in probe_values(wrap, deep, bad)[:1]] if deep is not None else []
    for i, v in probe_values(wrap, good, bad) + [(100 + i, v) for i, v in probe_values(wrap, sub, bad)[:2]] + extra:
        try:
            with sampler.draw(0):    # the same item of a multi-item container is inspected under both spellings
                r = mod.FUNC(v)
            out.append((i, 'ok' if r is v else 'ok-but-changed'))
        except Exception as e:
            out.append((i, type(e).__name__))
    return out


def strategy(tier):
    def fix(d):
        if d['subbed'] is not None and d['place'] in SUBBED_PLACES:
            d = dict(d, wrap=d['subbed'])
        d = dict(d)
        del d['subbed']
        if d['place'] not in SUBBED_PLACES or d['wrap'] in ('set',):
            d['flavour'] = 'plain'
        if d['spelling'] == 'partial' and d['wrap'] == 'PipeNone':
            d['wrap'] = 'Optional'    # 'Target' | None is a TypeError of Python itself
        return d
    return st.fixed_dictionaries({
        'place': st.sampled_from(['module', 'module', 'method', 'method-classdeco', 'nested-method', 'nested2-method', 'closure', 'closure2',
                                  'nested-alias', 'nested2-alias', 'nested-sibling', 'nested2-sibling']),
        'wrap': st.sampled_from(WRAPS), 'order': st.sampled_from(['class-first', 'class-later', 'class-after-first-call']),
        'spelling': st.sampled_from(['str', 'future', 'partial']),
        # the same source executed once before as another module: same annotation text, other classes of the same names
        'decoy': st.booleans(),
        'subbed': st.sampled_from([None, None] + sorted(SUBBED)),
        'flavour': st.sampled_from(['listint', 'dictstrint', 'plain', 'plain']),
    }).map(fix)


def run_case(case):
    from beartype.roar import BeartypeException
    fails, seen = [], set()
    place, wrap, spelling = case['place'], case['wrap'], case['spelling']

    def fail(sig, detail):
        if sig not in seen:
            seen.add(sig)
            fails.append({'sig': sig, 'detail': detail})
    with warnings.catch_warnings():
        warnings.simplefilter('ignore')
        ref_src = render(case, 'eval')
        try:
            ref_mod, _ = load(ref_src)
            ref = verdicts(ref_mod, wrap)
        except Exception as e:
            # the evaluated reference itself is not constructible (harness limitation) -> nothing to compare
            return {'fails': [], 'nontrivial': False, 'classes': ['discarded:reference-unbuildable:%s' % type(e).__name__], 'evals': 0,
                    'extra': {'discarded_reference': 1}}
        src = render(case, spelling)
        if case.get('decoy'):
            try:
                dmod, _ = load(src)
                verdicts(dmod, wrap)
            except Exception:
                pass    # whatever is wrong with this source is reported for the module under test below
        history = case['order'] == 'class-after-first-call' and place == 'module'
        try:
            mod, rest = load(src, stop_before_classes=history)
        except Exception as e:
            fail('definition-raised:%s:%s' % (place, type(e).__name__), '%s\n%r' % (src, e))
            return {'fails': fails, 'nontrivial': True, 'classes': ['place:' + place], 'evals': 1}
        if rest is not None:
            # first call before the referenced class exists
            try:
                # an object that cannot be accepted or rejected without resolving the name
                needle = {'bare': object(), 'Optional': object(), 'UnionInt': object(), 'PipeNone': object(), 'list': [object()],
                          'dict': {'k': object()}, 'tuplevar': (object(),), 'type': object, 'listOptional': [object()],
                          'dictlist': {'k': [object()]}, 'tuplefix': (1, object())}[SUBBED.get(wrap, wrap)]
                mod.FUNC(needle)
                fail('unresolved-name-accepted', '%s\ncall before the class exists returned normally' % src)
            except Exception as e:
                names = [c.__name__ for c in type(e).__mro__]
                if not (isinstance(e, BeartypeException) and any('ForwardRef' in n for n in names)):
                    fail('unresolved-name-raised:%s' % type(e).__name__, '%s\ncall before the class exists raised %r' % (src, e))
            exec(compile(rest, mod.__file__, 'exec'), mod.__dict__)
        try:
            got = verdicts(mod, wrap)
        except Exception as e:
            fail('probe-error:%s' % type(e).__name__, '%s\n%r' % (src, e))
            got = None
    if got is not None and got != ref:
        d = next((a, b) for a, b in zip(ref, got) if a != b)
        # probe 200 = an instance of the referenced class whose own items violate the hints of its container base
        deep = 'deep-item:' if d[0][0] == 200 else ''
        fail('verdict-differs:%s:%s:%s%s->%s' % (place, spelling, deep, d[0][1], d[1][1]),
             '%s\nwrap=%s probe %r: evaluated annotations -> %s, %s annotations -> %s' % (src, wrap, d[0][0], d[0][1], spelling, d[1][1]))
    nontriv = case['order'] != 'class-first' or place != 'module'
    return {'fails': fails, 'nontrivial': nontriv, 'evals': len(ref) * 2,
            'classes': ['place:' + place, 'wrap:' + wrap, 'order:' + case['order'], 'spelling:' + spelling]}
