"""C03 - all entry points agree; every rejection is the configured, explained violation."""
import collections
import re

from hypothesis import strategies as st

from vlib import hints as H
from vlib import entry as E
from vlib.props.c01 import draws_for, max_len

PID = 'C03'
LEVEL = 'exploration'
BUDGET = {'quick': 8000, 'thorough': 300000}
CAP_S = {'quick': 150, 'thorough': 3000}
RULE = ('case = (hint, object - conforming, violating at a generated path, or "middle zone" with only some items violating - , '
        'configuration incl. all violation_* options, verbosity, is_color, strategy in {O1,On}, draws); for every draw the six entry '
        'points must give one verdict; each rejection must be exactly the configured class (raised, or warned with the call proceeding '
        'for Warning classes), its message must contain repr(hint) and culprits[0] must be the object or (a prefix of) its repr. '
        'non-trivial = the object is rejected for at least one draw, or is an accepted middle-zone object; distinct by canonical JSON')
ASSUMPTIONS = [
    'wording of explanations, the identity of deeper culprits, and which violating item the O(n) error path names are not compared',
    'objects that cannot be weakly referenced appear in culprits as their (possibly truncated) repr - documented behaviour',
]

_VT = st.sampled_from([None, 'UserViolation', 'UserViolation2', 'UserWarnViolation'])
CONF_SPECS = st.fixed_dictionaries({}, optional={
    'is_random': st.booleans(),
    'strategy': st.sampled_from(['O1', 'On']),
    'violation_verbosity': st.sampled_from(['MINIMAL', 'DEFAULT', 'MAXIMAL']),
    'is_color': st.sampled_from([True, False, None]),
    'violation_type': _VT, 'violation_door_type': _VT, 'violation_param_type': _VT, 'violation_return_type': _VT,
})


@st.composite
def _case(draw, tier):
    depth = draw(st.sampled_from([0, 1, 1, 2, 2, 2, 3] + ([4] if tier == 'thorough' else [])))
    node, nex = H.avoid_known_shapes(draw(H.hint_nodes(depth)))
    kind = draw(st.sampled_from(['viol', 'viol', 'viol', 'conf']))
    v = draw(H.violating(node)) if kind == 'viol' else None
    if v is None:
        val, where = draw(H.conforming(node)), None
    else:
        val, where = v
    return {'hint': node, 'value': val, 'where': where, 'conf': draw(CONF_SPECS),
            'extra_draws': draw(st.lists(st.integers(0, 2 ** 32 - 1), max_size=1)), 'excluded_known_shape': nex}


def strategy(tier):
    return _case(tier)


# dotted names end at their last identifier character ("... | vlib.hints.VSupportsFoo." ends a sentence, not the name)
_TOKEN = re.compile(r"[A-Za-z_][A-Za-z_0-9]*(?:\.[A-Za-z_][A-Za-z_0-9]*)*|\d+|'[^']*'")


def _names_hint(hint_repr, msg):
    """The message names the hint: every token of repr(hint) occurs in the message at least as often
    (typing treats unions / literals that differ only in member order as equal, and beartype may print
    an equal hint it saw earlier, so member order is not compared)."""
    if hint_repr in msg:
        return True
    need = collections.Counter(_TOKEN.findall(hint_repr))
    have = collections.Counter(_TOKEN.findall(msg))
    if not (need - have):
        return True
    # equal unions have three spellings (typing.Optional[X], typing.Union[X, None], X | None) and beartype may print the
    # equal one it saw first: the words that only spell the union are not compared
    if 'Optional[' in hint_repr or 'Union[' in hint_repr or ' | ' in hint_repr:
        for word in ('typing', 'Optional', 'Union', 'None', 'typing.Optional', 'typing.Union'):
            need.pop(word, None)
        return not (need - have)
    return False


def _culprit_ok(c0, x):
    if c0 is x:
        return True
    if isinstance(c0, str):
        try:
            rx = repr(x)
        except Exception:
            return True
        c = c0[1:-1] if len(c0) >= 2 and c0[0] == c0[-1] == '"' else c0
        if c == rx or c0 == rx:
            return True
        # truncated representation: shares a prefix and is not longer than the original
        return len(c) <= len(rx) + 3 and rx.startswith(c[:10])
    return False


def run_case(case):
    node, vast, spec = case['hint'], case['value'], case['conf']
    x0 = H.realize(vast)
    root = H.known_shape_label(node) or H.node_kinds(node)[0]
    must, conf_ok = H.must_reject(node, x0), H.conforms(node, x0)
    zone = 'must-reject' if must else 'conforming' if conf_ok else 'middle'
    classes = ['zone:' + zone, 'root:' + root]
    hint = E.hint_of(node)
    fails, seen, evals = [], set(), 0
    any_reject = False

    def fail(sig, detail):
        if sig not in seen:
            seen.add(sig)
            fails.append({'sig': sig, 'detail': 'hint=%s obj=%r conf=%r %s' % (H.describe(node), x0, spec, detail)})

    try:
        hint_repr = repr(hint)
    except Exception:
        hint_repr = None
    for r in draws_for(vast, case.get('extra_draws', ()))[:10]:
        verdicts = {}
        for ep in E.entry_points_for(node):
            res = E.call_entry(ep, node, vast, spec, r)
            evals += 1
            exp = E.expected_violation_class(spec, ep)
            exp_warn = issubclass(exp, Warning)
            got = [w for w in res['warnings'] if w.category is exp] if exp_warn else []
            boolean_ep = ep in ('is_bearable', 'TypeHint.is_bearable')
            if res['verdict'] == 'raised':
                e = res['exc']
                if type(e) is exp and not exp_warn:
                    verdicts[ep] = 'reject'
                    msg = E.strip_ansi(str(e))
                    if hint_repr and not _names_hint(hint_repr, msg):
                        fail('message-lacks-hint:%s' % ('door' if ep not in ('param', 'return') else ep),
                             'draw=%d ep=%s message does not name the hint: %s' % (r, ep, msg[:300]))
                    culprits = getattr(e, 'culprits', None)
                    if culprits is not None:
                        if not culprits or not _culprit_ok(culprits[0], res['obj']):
                            fail('culprit-not-object', 'draw=%d ep=%s culprits=%r' % (r, ep, culprits))
                    elif type(e).__module__.startswith('beartype'):
                        fail('culprits-missing', 'draw=%d ep=%s %s has no culprits' % (r, ep, type(e).__name__))
                else:
                    verdicts[ep] = 'error'
                    kind = ('wrong-violation-class' if type(e).__name__.endswith('Violation') or
                            isinstance(e, tuple(E.VIOL_CLASSES.values())) else 'error')
                    if kind == 'error':
                        fail('error:%s@%s' % (type(e).__name__, E.where(e)),
                             'draw=%d ep=%s raised %s: %s' % (r, ep, type(e).__name__, E.strip_ansi(str(e))[:300]))
                    else:
                        fail('wrong-violation-class:%s' % ep, 'draw=%d ep=%s raised %s, configured %s' % (
                            r, ep, type(e).__name__, exp.__name__))
                        verdicts[ep] = 'reject'
            elif res['verdict'] == 'reject':   # boolean entry points
                verdicts[ep] = 'reject'
            else:
                if got and not boolean_ep:
                    verdicts[ep] = 'reject'
                    msg = E.strip_ansi(str(got[0].message))
                    if hint_repr and not _names_hint(hint_repr, msg):
                        fail('message-lacks-hint:warn', 'draw=%d ep=%s warning does not name the hint: %s' % (r, ep, msg[:300]))
                    # the call proceeds
                    if ep == 'return' and res['result'] is not res['obj']:
                        fail('warn-call-not-proceeding', 'draw=%d return check warned but the object did not come back' % r)
                else:
                    verdicts[ep] = 'accept'
                stray = [w for w in res['warnings'] if w.category is not exp and
                         (w.category.__name__.endswith('Violation') or w.category in E.VIOL_CLASSES.values())]
                if stray:
                    fail('wrong-violation-class:%s' % ep, 'draw=%d ep=%s warned %s, configured %s' % (
                        r, ep, stray[0].category.__name__, exp.__name__))
        vs = set(verdicts.values()) - {'error'}
        if 'reject' in vs:
            any_reject = True
        if len(vs) > 1:
            fail('entry-points-disagree:%s' % root, 'draw=%d verdicts=%r' % (r, verdicts))
        # reference semantics (shared with C01/C02, reported under this property only as a cross-check)
    nontriv = any_reject or zone == 'middle'
    classes.append('rejected' if any_reject else 'accepted')
    return {'fails': fails, 'nontrivial': nontriv, 'classes': classes, 'evals': evals,
            'excluded': case.get('excluded_known_shape', 0)}
