"""C15 - the public API is safe to use from many threads under every interleaving (bounded exploration).

Threads run under the controlled scheduler of vlib/sched.py: every line event inside <repo>/beartype
is a yield point, beartype's
locks are cooperative, and a schedule (list of run lengths) decides every context switch."""
import sys

from hypothesis import strategies as st

from vlib import isolate, sched

# beartype must be imported while threading.Lock / RLock are the cooperative wrappers
assert 'beartype' not in sys.modules or getattr(sys.modules.get('beartype'), '_vlib_coop', False) or True
sched.install_coop_locks()
try:
    import beartype  # noqa: E402
    import beartype.bite  # noqa: E402,F401
    import beartype.claw  # noqa: E402,F401
    import beartype.claw._package.clawpkgtrie  # noqa: E402,F401
    import beartype.door  # noqa: E402,F401
    import beartype.vale  # noqa: E402,F401
    import beartype._util.cache.pool.utilcachepoolinstance  # noqa: E402,F401
    import beartype._util.cache.pool.utilcachepoollistfixed  # noqa: E402,F401
    import beartype._check.error.errmain  # noqa: E402,F401
    sched.import_lock_users()
finally:
    sched.restore_real_locks()

PID = 'C15'
LEVEL = 'exploration'
BUDGET = {'quick': 80, 'thorough': 6000}
CAP_S = {'quick': 220, 'thorough': 3000}
MAX_SHARDS = 4
RULE = ('case = 2-3 threads, each a list of 1-3 public operations (BeartypeConf(**kw), TypeHint(h), is_bearable, die_if_unbearable, '
        '@beartype of a fresh function then a call, beartype_package, get_package_conf_or_none) over hints shared between the threads and '
        'built fresh inside them, plus either 4-12 schedules (lists of run lengths, <= 6 preemptions) drawn by Hypothesis or a one-preemption '
        'sweep (the first thread is preempted after k yield points for up to 40 (quick) / 200 (thorough) values of k). All schedules of a '
        'case run in one forked process; every run uses a class and a package prefix of its own so that it hits the first-time (cache-miss) '
        'paths. evaluations = schedules executed. Oracle: no exception, no deadlock; per-thread results equal those of one of the '
        'sequential orders of the same threads; equal BeartypeConf kwargs / equal hints yield one shared object across threads. '
        'Hot-reload mode (1 case in 8): one thread calls a wrapper whose forward reference is already resolved (or another operation without identity result) while the other re-decorates a class of an already decorated module and name (beartype clears its caches); every yield point of the first thread is a preemption point. non-trivial = at least one context switch away from a thread inside beartype code to a thread that is inside beartype code too; '
        'distinct by canonical JSON')
ASSUMPTIONS = [
    'context switches happen at line boundaries of Python code inside beartype (opcode-level tracing makes CPython 3.12.1 itself crash and is disabled); races that '
    'need a switch inside one C-level call cannot occur under the GIL',
    'bounded: <= 3 threads, <= 3 operations each, <= 6 preemptions per schedule; a step or wall budget hit is reported as inconclusive, never as a violation',
]

# Opcode-level yield points are disabled: with frame.f_trace_opcodes set, CPython 3.12.1 itself segfaults on some of the
# generated schedules (observed with a mutated confmain.py); line events are kept as the granularity.
OPCODE_FILES = ()
_OPCODE_FILES_WANTED = ('utilcachepool.py', 'utilcachepoolinstance.py', 'utilcachepoollistfixed.py', 'utilmapunbounded.py', 'utilcachecall.py',
                'confmain.py', 'doormeta.py', '_clawstate.py', 'clawpkgmain.py', 'decorcache.py')

CONFS = [{}, {'strategy': 'On'}, {'is_color': True}, {'violation_type': 'ValueError'}, {'is_pep484_tower': True}]
HINTS = [['list', 'U'], ['dict', 'str', 'U'], ['opt', 'U'], ['tuple', 'U'], ['union', 'U', 'str'], ['list', ['list', 'U']],
         ['set', 'U'], ['U'],
         # unions below the root and unions of subscripted hints only (their code generation goes through pooled scratch objects)
         ['list', ['union', ['list', 'U'], ['dict', 'str', 'U']]], ['union', 'U', ['list', 'U']], ['opt', ['list', 'U']],
         ['dict', 'str', ['union', ['list', 'U'], ['tuple', 'U']]]]
# files whose functions touch state shared between threads: returns from them mark the preemption points of the 'syncsweep' mode
SYNC_FILES = ('utilcachepool.py', 'utilcachepoolinstance.py', 'utilcachepoollistfixed.py', 'utilmapunbounded.py', 'utilcachecall.py',
              'utilcachemeta.py', 'confmain.py', 'doormeta.py', '_clawstate.py', 'clawpkgmain.py', 'clawpkgtrie.py', 'decorcache.py',
              'utilcachelru.py', 'utilmaplru.py')
VALUES = [['u'], ['s', 'a'], ['list', [['u'], ['s', 'a']]], ['list', [['u']]], ['dict', 'k', ['u']], ['n'], ['tuple', [['u']]], ['set', ['u']],
          # values conforming to the nested-union hints
          ['list', [['list', [['u']]]]], ['dict', 'k', ['list', [['u']]]], ['list', [['dict', 'k', ['u']]]]]
NAMES = ['a', 'a.b', 'b']

# (deepest first: Hypothesis over-represents the first element of a sampled_from in rarely taken branches)
UNION_HINTS = sorted((i for i, h in enumerate(HINTS) if 'union' in repr(h) or 'opt' in repr(h)), key=lambda i: -len(repr(HINTS[i])))
_hint_index = st.one_of(st.integers(0, len(HINTS) - 1), st.sampled_from(UNION_HINTS))

op_s = st.one_of(
    st.tuples(st.just('conf'), st.integers(0, len(CONFS) - 1)),
    st.tuples(st.just('conf'), st.integers(0, len(CONFS) - 1)),
    st.tuples(st.just('typehint'), st.integers(0, len(HINTS) - 1), st.booleans()),
    st.tuples(st.just('typehint'), st.integers(0, len(HINTS) - 1), st.booleans()),
    st.tuples(st.just('is_bearable'), st.integers(0, len(HINTS) - 1), st.integers(0, len(VALUES) - 1), st.booleans()),
    st.tuples(st.just('die'), st.integers(0, len(HINTS) - 1), st.integers(0, len(VALUES) - 1), st.booleans()),
    st.tuples(st.just('decorate_call'), st.integers(0, len(HINTS) - 1), st.integers(0, len(VALUES) - 1), st.integers(0, 1)),
    st.tuples(st.just('pkg'), st.sampled_from(NAMES), st.integers(0, 1)),
    st.tuples(st.just('getconf'), st.sampled_from(['a', 'a.b.c', 'b', 'c'])),
    # hook registration with a skip list: the two variants register sibling packages whose skipped descendants share an ancestor
    # that is not in the blacklist yet
    st.tuples(st.just('pkgskip'), st.integers(0, 1)),
    st.tuples(st.just('pkgskip'), st.integers(0, 1)),
).map(list)
OBSERVED = ['a', 'a.b', 'b', 'shared.x', 'shared.y', 'shared.x.skip.mod', 'shared.y.skip.mod', 'shared.x.other', 'shared.y.other']


@st.composite
def _case(draw, tier):
    nthreads = draw(st.sampled_from([2, 2, 2, 3]))
    threads = [draw(st.lists(op_s, min_size=1, max_size=3)) for _ in range(nthreads)]
    # related operations: with probability 1/2 the second thread repeats the first thread's first operation
    if draw(st.booleans()):
        threads[1][0] = list(threads[0][0])
    if draw(st.integers(0, 7)) == 0:
        # hot reload next to a running call: one thread re-decorates a class of an already decorated module and name (beartype then
        # clears all of its caches), the other one calls a wrapper whose forward reference is resolved already, or runs another
        # operation without an identity result; the first thread is preempted after every one of its first 40 / 200 yield points
        first = draw(st.one_of(
            st.just(['fwdcall']), st.just(['fwdcall']),
            st.tuples(st.just('is_bearable'), _hint_index, st.integers(0, len(VALUES) - 1), st.booleans()).map(list),
            st.tuples(st.just('decorate_call'), _hint_index, st.integers(0, len(VALUES) - 1), st.integers(0, 1)).map(list)))
        threads = [[first], [['redecorate']]]
        if draw(st.booleans()):
            threads = threads[::-1]
        return {'threads': threads, 'mode': 'sweep', 'stride': 1, 'offset': draw(st.integers(0, 3)), 'points': 40 if tier == 'quick' else 200}
    if draw(st.integers(0, 2)) == 0:
        # sync-point sweep: the first thread is preempted right after its returns from functions of SYNC_FILES - evenly spread over
        # all of them (stride = ceil(#points / budget), drawn offset) - and the other threads run to completion in between. Both
        # threads start with an operation that generates code, half of the time over a union hint (pooled scratch objects).
        gen_op = st.one_of(
            st.tuples(st.just('decorate_call'), _hint_index, st.integers(0, len(VALUES) - 1), st.integers(0, 1)),
            st.tuples(st.just('is_bearable'), _hint_index, st.integers(0, len(VALUES) - 1), st.booleans()),
            st.tuples(st.just('die'), _hint_index, st.integers(0, len(VALUES) - 1), st.booleans()),
            st.tuples(st.just('typehint'), _hint_index, st.booleans()),
            st.tuples(st.just('pkgskip'), st.integers(0, 1)),
            st.tuples(st.just('pkg'), st.sampled_from(NAMES), st.integers(0, 1))).map(list)
        threads = [[draw(gen_op)] + draw(st.lists(op_s, max_size=1)) for _ in range(2)]
        return {'threads': threads, 'mode': 'syncsweep', 'offset': draw(st.integers(0, 10 ** 6)), 'points': 80 if tier == 'quick' else 400}
    if draw(st.booleans()):
        # one-preemption sweep: the first thread is preempted after k yield points for k = offset, offset+stride, ...
        return {'threads': threads, 'mode': 'sweep', 'stride': draw(st.sampled_from([1, 1, 2, 3, 7])), 'offset': draw(st.integers(0, 6)),
                'points': 40 if tier == 'quick' else 200}
    schedules = draw(st.lists(st.lists(st.one_of(st.integers(0, 40), st.integers(0, 400), st.integers(0, 3000)), min_size=1, max_size=6),
                              min_size=4, max_size=12))
    return {'threads': threads, 'mode': 'random', 'schedules': schedules}


def strategy(tier):
    return _case(tier)


# ------------------------------------------------------------------ interpreter (inside the forked child)
# Every run inside one child uses a class U and package prefix of its own, so that each run exercises the first-time
# (cache miss) paths although the process is not fresh; the results of the operations do not depend on which U is used.
def _hint(spec, U):
    import typing
    if isinstance(spec, str):
        return {'int': int, 'str': str, 'U': U}[spec]
    k = spec[0]
    if k == 'U':
        return U
    if k == 'list':
        return list[_hint(spec[1], U)]
    if k == 'dict':
        return dict[_hint(spec[1], U), _hint(spec[2], U)]
    if k == 'opt':
        return typing.Optional[_hint(spec[1], U)]
    if k == 'tuple':
        return tuple[_hint(spec[1], U), ...]
    if k == 'union':
        return typing.Union[_hint(spec[1], U), _hint(spec[2], U)]
    if k == 'set':
        return set[_hint(spec[1], U)]
    raise ValueError(spec)


def _value(v, U):
    k = v[0]
    if k == 'u':
        return U()
    if k == 's':
        return v[1]
    if k == 'n':
        return None
    if k == 'list':
        return [_value(x, U) for x in v[1]]
    if k == 'tuple':
        return tuple(_value(x, U) for x in v[1])
    if k == 'set':
        return {_value(v[1], U)}
    if k == 'dict':
        return {v[1]: _value(v[2], U)}
    raise ValueError(v)


def _conf(i, U):
    import typing
    from beartype import BeartypeConf, BeartypeStrategy, FrozenDict
    kw = dict(CONFS[i])
    if 'strategy' in kw:
        kw['strategy'] = BeartypeStrategy[kw['strategy']]
    if 'violation_type' in kw:
        kw['violation_type'] = ValueError
    kw['hint_overrides'] = FrozenDict({U: typing.Union[U, bytes]})     # makes the configuration new to the memo
    return BeartypeConf(**kw)


def _run_ops(ops, shared, keep, U, prefix):
    from beartype import beartype as bt
    from beartype.claw import beartype_package
    from beartype.claw._package.clawpkgtrie import get_package_conf_or_none
    from beartype.door import TypeHint, die_if_unbearable, is_bearable
    out = []
    for op in ops:
        k = op[0]
        try:
            if k == 'conf':
                c = _conf(op[1], U)
                keep.append(c)
                out.append(['id', 'conf:%d' % op[1], id(c)])
            elif k == 'typehint':
                h = shared[op[1]] if op[2] else _hint(HINTS[op[1]], U)
                t = TypeHint(h)
                keep.append(t)
                out.append(['id', 'typehint:%d' % op[1], id(t)])
            elif k == 'is_bearable':
                h = shared[op[1]] if op[3] else _hint(HINTS[op[1]], U)
                out.append(['val', is_bearable(_value(VALUES[op[2]], U), h)])
            elif k == 'die':
                h = shared[op[1]] if op[3] else _hint(HINTS[op[1]], U)
                die_if_unbearable(_value(VALUES[op[2]], U), h)
                out.append(['val', 'ok'])
            elif k == 'decorate_call':
                def f(p):
                    return p
                f.__annotations__ = {'p': _hint(HINTS[op[1]], U), 'return': _hint(HINTS[op[1]], U)}
                g = bt(conf=_conf(op[3], U))(f)
                g(_value(VALUES[op[2]], U))
                out.append(['val', 'ok'])
            elif k == 'pkg':
                beartype_package(prefix + op[1], conf=_conf(op[2], U))
                out.append(['val', 'ok'])
            elif k == 'pkgskip':
                from beartype import BeartypeConf, FrozenDict
                import typing
                w = 'xy'[op[1]]
                beartype_package(prefix + 'shared.' + w, conf=BeartypeConf(
                    claw_skip_package_names=(prefix + 'shared.' + w + '.skip',), hint_overrides=FrozenDict({U: typing.Union[U, bytes]})))
                out.append(['val', 'ok'])
            elif k == 'fwdcall':
                # a decorated function whose forward reference was resolved by an earlier call (see _prepare)
                _WARM[U](U())
                out.append(['val', 'ok'])
            elif k == 'redecorate':
                # a class of an already decorated module and name (hot reload): beartype clears its caches
                bt(type('Reloaded', (), {'__module__': 'c15dyn'}))
                out.append(['val', 'ok'])
            elif k == 'getconf':
                c = get_package_conf_or_none(prefix + op[1])
                out.append(['val', None if c is None else sorted((k2, repr(v2)) for k2, v2 in c.kwargs.items()
                                                                 if k2 not in ('warning_cls_on_decorator_exception', 'hint_overrides'))[:3]])
        except Exception as e:
            if isinstance(e, (sched.Deadlock, sched.SchedTimeout)):
                raise
            out.append(['exc', type(e).__name__])
    return out


_RUN = [0]


def _fresh():
    _RUN[0] += 1
    n = _RUN[0]
    U = type('U%d' % n, (), {'__module__': 'c15dyn', '__hash__': lambda self: 17})
    return U, 'c15pkg%d.' % n


_WARM = {}


def _prepare(U, threads):
    """Sequential prelude of a run whose threads use 'fwdcall' / 'redecorate': a function annotated by a forward reference that is
    undefined when it is decorated, then defined and resolved by a first call; a decorated class named c15dyn.Reloaded."""
    if not any(op[0] in ('fwdcall', 'redecorate') for t in threads for op in t):
        return
    import sys
    import types
    from beartype import beartype as bt
    mod = sys.modules.get('c15dyn') or sys.modules.setdefault('c15dyn', types.ModuleType('c15dyn'))
    name = 'Later%d' % _RUN[0]
    bt(type('Reloaded', (), {'__module__': 'c15dyn'}))   # (before the first call below: from the second run on this clears the caches)

    def f(p):
        return 1
    f.__module__ = 'c15dyn'
    f.__annotations__ = {'p': 'c15dyn.' + name}
    g = bt(f)
    setattr(mod, name, U)
    g(U())
    _WARM.clear()
    _WARM[U] = g


def _one_run(threads, schedule, trace_prefix):
    """One concurrent run under ``schedule`` (None = sequential reference in thread order 0,1,.. and all permutations)."""
    U, pfx = _fresh()
    shared = [_hint(h, U) for h in HINTS]
    keep = []
    _prepare(U, threads)
    s = sched.Scheduler(len(threads), schedule, trace_prefix, OPCODE_FILES, step_timeout=15.0, sync_files=SYNC_FILES)
    s.run([(lambda ops=ops: _run_ops(ops, shared, keep, U, pfx)) for ops in threads])
    if not (s.deadlock or s.timeout):
        s.results = list(s.results) + [_observe(pfx)]
    return s, keep


def _observe(pfx):
    """Final state of the hook registry as seen through the public lookup (which names are hooked at all), appended to the
    results as one more row: it has to be the state some sequential order leaves behind too."""
    from beartype.claw._package.clawpkgtrie import get_package_conf_or_none
    return [['val', [get_package_conf_or_none(pfx + n) is not None for n in OBSERVED]]]


def _sequential(threads, order):
    U, pfx = _fresh()
    shared = [_hint(h, U) for h in HINTS]
    keep = []
    _prepare(U, threads)
    res = [None] * len(threads)
    for t in order:
        res[t] = _run_ops(threads[t], shared, keep, U, pfx)
    return res + [_observe(pfx)]


def _normalise(results):
    """Replace object ids by the index of their first occurrence (identity pattern)."""
    seen = {}
    out = []
    for r in results:
        if r is None:
            out.append(None)
            continue
        row = []
        for x in r:
            if x[0] == 'id':
                row.append(['id', x[1], seen.setdefault(x[2], len(seen))])
            else:
                row.append(x)
        out.append(row)
    return out


def _child(case):
    import itertools
    import os
    import warnings
    warnings.simplefilter('ignore')
    from vlib import sampler
    sampler.set_draw(0)      # verdicts must not depend on an uncontrolled sampler draw
    threads = case['threads']
    prefix = os.path.dirname(beartype.__file__) + os.sep
    refs = [_normalise(_sequential(threads, list(o))) for o in itertools.permutations(range(len(threads)))]
    if case['mode'] == 'sweep':
        base, _k = _one_run(threads, [10 ** 9], prefix)
        n0 = base.inside[0]
        schedules = [[k] for k in range(case['offset'], n0 + 1, case['stride'])][:case['points']]
    elif case['mode'] == 'syncsweep':
        # the first run in a process takes once-only initialisation paths (its yield-point indexes are not those of later
        # runs): calibrate on the second one
        _one_run(threads, [10 ** 9], prefix)
        base, _k = _one_run(threads, [10 ** 9], prefix)
        pts = sorted(set(base.sync_points[0]))
        stride = max(1, -(-len(pts) // case['points']))
        schedules = [[k] for k in pts[case['offset'] % stride::stride]][:case['points']]
    else:
        schedules = case['schedules']
    runs = []
    for sc in schedules:
        s, keep = _one_run(threads, list(sc), prefix)
        errs = [None if e is None else '%s: %s' % (type(e).__name__, str(e)[:160]) for e in s.errors]
        ids = {}
        for r in s.results:
            for x in (r or ()):
                if x[0] == 'id':
                    ids.setdefault(x[1], set()).add(x[2])
        dup = sorted(k for k, v in ids.items() if len(v) > 1)
        got = _normalise(s.results)
        runs.append({'schedule': sc, 'errors': errs, 'deadlock': s.deadlock, 'timeout': s.timeout, 'dup': dup,
                     'explained': got in refs, 'results': got if got not in refs else None,
                     'switches': s.switches, 'concurrent_switches': s.concurrent_switches, 'steps': s.steps})
        if s.deadlock or s.timeout:
            break      # threads may be stuck: this process is no longer trustworthy
    return {'runs': runs, 'refs': refs}


def run_case(case):
    threads = case['threads']
    try:
        c = isolate.call(_child, case, timeout=240)
    except isolate.IsolateError:
        return {'fails': [], 'nontrivial': False, 'classes': ['inconclusive:child-crashed'], 'evals': 1, 'extra': {'inconclusive_crashes': 1}}
    if c.get('timeout') is True:
        return {'fails': [], 'nontrivial': False, 'classes': ['inconclusive:child-timeout'], 'evals': 1, 'extra': {'inconclusive_timeouts': 1}}
    fails, seen = [], set()
    lab = '+'.join(sorted({op[0] for t in threads for op in t}))

    def fail(sig, detail, sc):
        if sig not in seen:
            seen.add(sig)
            fails.append({'sig': sig, 'detail': 'threads=%r schedule=%r: %s' % (threads, sc, detail)})
    nontriv = False
    inconclusive = 0
    nsw = 0
    for r in c['runs']:
        if r['deadlock']:
            fail('deadlock:%s' % lab, 'no thread could make progress; errors %r' % (r['errors'],), r['schedule'])
            continue
        if r['timeout']:
            inconclusive += 1
            continue
        for i, e in enumerate(r['errors']):
            if e is not None:
                fail('thread-raised:%s' % e.split(':')[0], 'thread %d raised %s' % (i, e), r['schedule'])
        for key in r['dup']:
            fail('singleton-duplicated:%s' % key.split(':')[0], '%s yielded distinct objects in different threads' % key, r['schedule'])
        if not r['explained'] and not r['dup'] and not any(r['errors']):
            fail('not-sequentially-explainable:%s' % lab, 'concurrent results %r match no sequential order %r' % (r['results'], c['refs']),
                 r['schedule'])
        if r['concurrent_switches'] >= 1:
            nontriv = True
            nsw += 1
    classes = ['threads:%d' % len(threads), 'mode:' + case['mode'], 'runs:%d' % min(len(c['runs']) // 10 * 10, 200),
               'concurrent' if nontriv else 'no-overlap']
    return {'fails': fails, 'nontrivial': nontriv, 'classes': classes, 'evals': len(c['runs']),
            'extra': {'yield_points': sum(r['steps'] for r in c['runs']), 'schedules_with_overlap': nsw,
                      'inconclusive_timeouts': inconclusive}}
