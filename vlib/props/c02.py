"""C02 - guaranteed detection: violations the strategy must see are rejected for every draw; every
index of a sequence is reachable under random sampling and index 0 is the one inspected when
is_random=False; an accepted object never must_reject()s."""
from hypothesis import strategies as st

from vlib import hints as H
from vlib import entry as E
from vlib.props.c01 import draws_for, max_len

PID = 'C02'
LEVEL = 'exploration'
BUDGET = {'quick': 9600, 'thorough': 400000}
CAP_S = {'quick': 150, 'thorough': 3000}
RULE = ('two case families. viol: (hint, object built by injecting a violation at a generated path of a conforming object, '
        'conf, draws) - when the reference semantics says must_reject, is_bearable / die_if_unbearable / decorated parameter '
        'must reject for every draw under is_random in {True, False}; conversely an accepted object must not must_reject. '
        'reach: sequence-sampling hint (list/List/Sequence/MutableSequence/tuple[T,...], and Iterable/Container/Reversible holding a sequence object) under 0-2 unsampled ancestors, object of length n '
        'whose only defect is a draw-independent violation at index i: some draw in 0..n-1 must reject, and with '
        'is_random=False the object is rejected iff i == 0. non-trivial = violation depth >= 1, or index >= 1, or a union '
        'whose members all reject; distinct by canonical JSON')
ASSUMPTIONS = [
    'reference must_reject() of vlib/hints.py; cases it classifies as draw-dependent are only counted (middle zone)',
    'reachability is asserted per sequence level with unsampled ancestors only; one draw is shared by all nesting levels, so deep positions are out of scope of the statement',
]

EPS = ('is_bearable', 'die_if_unbearable', 'param')
# hints under which a *sequence object* is sampled by index: the sequence families, variadic tuples, and the
# quasi-iterable families (Iterable/Container/Reversible) when the object happens to be a sequence.
# Collection[T] is deliberately absent: beartype documents it as a reiterable whose first item is inspected.
SEQ_WRAPPERS = ([['seq', f] for f in sorted(H.SEQ_FAMS)] + [['tupv', 'T'], ['tupv', 't']] +
                [['quasi', f] for f in sorted(H.QUASI_FAMS)])


@st.composite
def _viol_case(draw, tier):
    depth = draw(st.sampled_from([0, 1, 1, 2, 2, 2, 3] + ([4] if tier == 'thorough' else [])))
    node, nex = H.avoid_known_shapes(draw(H.hint_nodes(depth)))
    v = draw(H.violating(node))
    if v is None:
        # hint with no violating object in the alien pool (Any, object, unbound TypeVar): fall back to a reach case
        return draw(_reach_case(tier))
    return {'kind': 'viol', 'hint': node, 'value': v[0], 'where': v[1],
            'conf': draw(st.fixed_dictionaries({}, optional={
                'strategy': st.sampled_from(['O1', 'On']),
                'violation_verbosity': st.sampled_from(['MINIMAL', 'DEFAULT', 'MAXIMAL'])})),
            'extra_draws': draw(st.lists(st.integers(0, 2 ** 32 - 1), max_size=2)), 'excluded_known_shape': nex}


@st.composite
def _reach_case(draw, tier):
    # item hint with a draw-independent violating object
    for _ in range(5):
        child, _n = H.avoid_known_shapes(draw(H.hint_nodes(draw(st.sampled_from([0, 0, 1, 2])))))
        bad = draw(H.rejecting_leaf(child))
        if bad is not None:
            break
    else:
        child, bad = ['cls', 'int'], ['obj', 'VAlien']
    w = draw(st.sampled_from(SEQ_WRAPPERS))
    seqnode = ['tupv', child, w[1]] if w[0] == 'tupv' else [w[0], w[1], child]
    n = draw(st.sampled_from([1, 2, 3, 3, 4, 5, 7, 8, 12]))
    i = draw(st.one_of(st.integers(0, n - 1), st.sampled_from([0, n - 1, n // 2])))
    base = draw(H.conforming(seqnode, False, st.just(n)))
    tries = 0
    while base[0] not in ('list', 'tuple', 'deque', 'mylist', 'userseq') and tries < 5:
        base = draw(H.conforming(seqnode, False, st.just(n)))
        tries += 1
    if base[0] not in ('list', 'tuple', 'deque', 'mylist', 'userseq'):
        base = ['tuple' if w[0] == 'tupv' else 'list', [draw(H.conforming(child)) for _ in range(n)]]
    items = list(base[1])
    items[i] = bad
    val = [base[0], items]
    node = seqnode
    # unsampled ancestors
    for _ in range(draw(st.integers(0, 2))):
        a = draw(st.sampled_from(['tupf', 'union', 'optional', 'ann']))
        if a == 'tupf':
            other = draw(H.hint_nodes(0))
            oval = draw(H.conforming(other))
            if draw(st.booleans()):
                node, val = ['tupf', [node, other], 't'], ['tuple', [val, oval]]
            else:
                node, val = ['tupf', [other, node], 'T'], ['tuple', [oval, val]]
        elif a == 'union':
            node = ['union', [draw(st.sampled_from([['none'], ['cls', 'int'], ['cls', 'VOther']])), node], 'U']
        elif a == 'optional':
            node = ['union', [node], 'O']
        else:
            node = ['ann', node, [['is', 'always']]]
    node = H.merge_nested_annotated(node)
    return {'kind': 'reach', 'hint': node, 'value': val, 'index': i, 'len': n, 'child': child, 'seqval': [base[0], items], 'seq': seqnode[:2] if w[0] != 'tupv' else ['tupv'],
            'conf': draw(st.fixed_dictionaries({}, optional={'strategy': st.sampled_from(['O1', 'On'])}))}


def strategy(tier):
    return st.one_of(_viol_case(tier), _viol_case(tier), _reach_case(tier))


def _rejected(ep, node, vast, spec, r):
    res = E.call_entry(ep, node, vast, spec, r)
    if res['verdict'] == 'reject':
        return True, None
    if res['verdict'] == 'accept':
        return False, None
    e = res['exc']
    exp = E.expected_violation_class(spec, ep)
    if isinstance(e, exp):
        return True, None
    return None, e


def _depth_of(where):
    d = 0
    while where and 'inner' in where:
        d += 1
        where = where['inner']
    return d


def run_case(case):
    node, vast = case['hint'], case['value']
    x = H.realize(vast)
    root = H.known_shape_label(node) or H.node_kinds(node)[0]
    fails, seen, evals = [], set(), 0

    def fail(sig, detail):
        if sig not in seen:
            seen.add(sig)
            fails.append({'sig': sig, 'detail': 'hint=%s obj=%r %s' % (H.describe(node), x, detail)})

    if case['kind'] == 'viol':
        must = H.must_reject(node, x)
        conf_ok = H.conforms(node, x)
        cls = 'viol:' + ('must-reject' if must else 'conforming' if conf_ok else 'middle')
        classes = [cls, 'mode:' + case['where']['mode'], 'root:' + root]
        if conf_ok:
            return {'fails': [], 'nontrivial': False, 'classes': classes, 'evals': 0,
                    'extra': {'discarded_conforming': 1}}
        for is_random in (True, False):
            spec = dict(case['conf'], is_random=is_random)
            for r in draws_for(vast, case.get('extra_draws', ())):
                for ep in EPS:
                    rej, err = _rejected(ep, node, vast, spec, r)
                    evals += 1
                    if err is not None:
                        fail('error:%s@%s' % (type(err).__name__, E.where(err)),
                             'draw=%d conf=%r ep=%s raised %s: %s' % (r, spec, ep, type(err).__name__, E.strip_ansi(str(err))[:300]))
                    elif must and not rej:
                        fail('missed:%s:%s' % (case['where']['mode'], root),
                             'draw=%d conf=%r ep=%s accepted although the violation is draw-independent (%r)' % (
                                 r, spec, ep, case['where']))
                    # (converse clause) accepted => not must_reject: same assertion read backwards
        nontriv = must and (_depth_of(case['where']) >= 1 or case['where'].get('index', 0) >= 1 or
                            (root == 'union' and len(node[1]) >= 2))
        return {'fails': fails, 'nontrivial': bool(nontriv), 'classes': classes, 'evals': evals,
                'excluded': case.get('excluded_known_shape', 0)}

    # reach
    n, i = case['len'], case['index']
    classes = ['reach', 'reach:' + '/'.join(case['seq']), 'reach:index%s' % ('0' if i == 0 else 'last' if i == n - 1 else 'mid'),
               'reach:len%d' % n]
    sv = H.realize(case['seqval'])
    items = list(sv)
    single_defect = (len(items) == n and H.must_reject(case['child'], items[i]) and
                     all(H.conforms(case['child'], it) for j, it in enumerate(items) if j != i))
    if not single_defect or H.conforms(node, x):
        # the generator promised exactly one draw-independent defect; otherwise the case says nothing
        return {'fails': [], 'nontrivial': False, 'classes': classes + ['discarded'], 'evals': 0,
                'extra': {'discarded_reach': 1}}
    spec_r = dict(case['conf'], is_random=True)
    hit = []
    for r in range(n):
        rej, err = _rejected('is_bearable', node, vast, spec_r, r)
        evals += 1
        if err is not None:
            fail('error:%s@%s' % (type(err).__name__, E.where(err)), 'draw=%d raised %s' % (r, err))
        if rej:
            hit.append(r)
    if not hit:
        fail('unreachable-index:%s' % '/'.join(case['seq']),
             'only item %d of %d violates (draw-independently) but no draw in 0..%d rejects (is_random=True)' % (i, n, n - 1))
    else:
        # the same draw must reject through the other entry points too
        for ep in ('die_if_unbearable', 'param'):
            rej, err = _rejected(ep, node, vast, spec_r, hit[0])
            evals += 1
            if rej is False:
                fail('unreachable-index:%s' % '/'.join(case['seq']), 'draw %d rejects via is_bearable but not via %s' % (hit[0], ep))
    spec_n = dict(case['conf'], is_random=False)
    for r in (0, 1, n - 1, 2 ** 32 - 1):
        for ep in EPS:
            rej, err = _rejected(ep, node, vast, spec_n, r)
            evals += 1
            if err is not None:
                fail('error:%s@%s' % (type(err).__name__, E.where(err)), 'draw=%d raised %s' % (r, err))
            elif i == 0 and not rej:
                fail('nonrandom-item0-missed:%s' % '/'.join(case['seq']), 'is_random=False, item 0 violates, draw=%d ep=%s accepted' % (r, ep))
            elif i != 0 and rej:
                fail('nonrandom-not-item0:%s' % '/'.join(case['seq']),
                     'is_random=False, only item %d violates, draw=%d ep=%s rejected (item 0 is not the one inspected)' % (i, r, ep))
    return {'fails': fails, 'nontrivial': True, 'classes': classes, 'evals': evals}
