"""C05 - the import hook preserves program meaning and equals writing the checks by hand.

Modules are generated from a statement grammar and rendered as source text.  Three oracles:
(1) structural: the transformed AST, with the injected import / decorators / check statements stripped (and validated
    against an independent re-statement of the rule), must dump identically to the original AST *including positions*;
(2) the transformed AST compiles;
(3) behavioural: the module is imported in forked children three ways - under the real hook, as a hand-rewritten
    source (my own rewriter inserting @beartype / die_if_unbearable textually), and untouched - and evaluation trace,
    first exception (class and original line), and probe verdicts are compared."""
import ast
import os
import shutil
import sys
import tempfile
import warnings

from hypothesis import strategies as st

from vlib import isolate

import beartype  # noqa: F401  (pre-imported for the forked children)
import beartype.claw  # noqa: F401
import beartype.claw._ast.clawastmain  # noqa: F401
import beartype.claw._package._clawpkgmake  # noqa: F401
import beartype.door  # noqa: F401

PID = 'C05'
LEVEL = 'exploration'
BUDGET = {'quick': 700, 'thorough': 40000}
CAP_S = {'quick': 220, 'thorough': 3000}
MAX_SHARDS = 8
RULE = ('case = module source from a statement grammar (docstring, __future__ imports, imports, nested def / async def / class, existing '
        'decorator stacks with identity / wrapping / factory decorators and staticmethod / classmethod / property, loops, if, try/finally, '
        'with, match, annotated assignments to names, attributes and subscripts at module, function and class scope with and without value, '
        'every re-evaluable sub-expression a traced call T(k, v), hints incl. unsupported ones, values conforming or violating) x '
        'claw_is_pep526 x claw_decor_place_func x claw_decor_place_type x default / non-default configuration. Oracles: structural '
        '(injected import / decorators / check statements validated against an independent re-statement of the rule, everything else '
        'identical incl. lineno / col_offset), compile(), and - for every third case - behavioural differential between hooked import, '
        'hand-rewritten source and untouched source in forked children (trace, first exception class + line, probe verdicts). '
        'non-trivial = an annotated def inside a class or closure, a non-Name annotated-assignment target, or an existing decorator stack; '
        'distinct by canonical JSON')
ASSUMPTIONS = [
    'decorator placement is read from the option documentation: LAST / LAST_BEFORE_DECOR_HOSTILE = top-most (index 0; the grammar imports no '
    'decorator-hostile package), FIRST = bottom-most',
    'the hand-rewritten reference repeats the target and annotation expressions textually (as a person would), so double evaluation by the '
    'hook is judged against the untouched module, not against the hand-rewritten one',
]

HINT_SRC = ['int', 'str', 'list[int]', 'typing.Optional[int]', "T('ann', int)", "T('ann', str)"]
BAD_HINT_SRC = ['3', "UNSUPPORTED"]
VALUES = {'int': ['1', "T('v', 2)"], 'str': ["'s'", "T('v', 't')"]}


# ------------------------------------------------------------------ grammar -> source
def _expr_value(hint, good):
    base = 'int' if 'int' in hint else 'str'
    if good:
        return VALUES[base]
    return VALUES['str' if base == 'int' else 'int']


@st.composite
def stmts(draw, depth, scope, counter):
    """List of statement specs.  scope in {'module', 'func', 'class'}."""
    n = draw(st.integers(1, 3 if depth else 4))
    out = []
    for _ in range(n):
        kinds = ['ann', 'ann', 'annnoval', 'assign', 'expr']
        if depth > 0:
            kinds += ['def', 'def', 'class', 'ctrl', 'asyncdef']
        k = draw(st.sampled_from(kinds))
        counter[0] += 1
        i = counter[0]
        if k in ('ann', 'annnoval'):
            hint = draw(st.sampled_from(HINT_SRC + (BAD_HINT_SRC if draw(st.integers(0, 9)) == 0 else [])))
            tgt = draw(st.sampled_from(['name', 'name', 'name', 'name', 'attr', 'attr', 'sub']))
            good = draw(st.sampled_from([True, True, True, False]))
            val = None if k == 'annnoval' else draw(st.sampled_from(_expr_value(hint, good))) if hint not in BAD_HINT_SRC else '1'
            out.append({'k': 'ann', 'target': tgt, 'n': i, 'hint': hint, 'value': val, 'traced_obj': draw(st.booleans())})
        elif k == 'assign':
            out.append({'k': 'assign', 'n': i, 'value': draw(st.sampled_from(['1', "T('a', 3)"]))})
        elif k == 'expr':
            out.append({'k': 'expr', 'n': i})
        elif k in ('def', 'asyncdef'):
            annotated = draw(st.sampled_from([True, True, False]))
            hint = draw(st.sampled_from(['int', 'str'] + (BAD_HINT_SRC if draw(st.integers(0, 7)) == 0 else [])))
            decos = draw(st.lists(st.sampled_from(['ident', 'wrapping', "factory('x')"]), max_size=2))
            if scope == 'class':
                decos = decos + draw(st.sampled_from([[], [], ['staticmethod'], ['classmethod'], ['property']]))
            out.append({'k': 'def', 'async': k == 'asyncdef', 'n': i, 'annotated': annotated, 'hint': hint, 'decos': decos,
                        'ret': draw(st.booleans()), 'body': draw(stmts(depth - 1, 'func', counter))})
        elif k == 'class':
            out.append({'k': 'class', 'n': i, 'decos': draw(st.lists(st.sampled_from(['ident']), max_size=1)),
                        'body': draw(stmts(depth - 1, 'class', counter))})
        else:
            out.append({'k': 'ctrl', 'kind': draw(st.sampled_from(['if', 'for', 'while', 'try', 'with', 'match'])), 'n': i,
                        'body': draw(stmts(depth - 1, scope, counter))})
    return out


PRELUDE = '''import typing
import contextlib
LOG = []
def T(k, v):
    LOG.append(k)
    return v
def ident(f):
    return f
def wrapping(f):
    import functools
    @functools.wraps(f)
    def inner(*a, **k):
        return f(*a, **k)
    return inner
def factory(tag):
    def deco(f):
        return f
    return deco
class Holder:
    pass
HOLDER = Holder()
TABLE = {}
UNSUPPORTED = typing.ClassVar
'''


def render(spec):
    lines = []
    if spec['doc']:
        lines.append('"""module docstring"""')
    for f in spec['future']:
        lines.append('from __future__ import %s' % f)
    lines += PRELUDE.splitlines()
    _render_body(spec['body'], 0, 'module', lines)
    return '\n'.join(lines) + '\n'


def _render_body(body, ind, scope, lines):
    pad = '    ' * ind
    for s in body:
        k = s['k']
        if k == 'ann':
            tgt = {'name': 'v%d' % s['n'],
                   'attr': ("T('obj%d', HOLDER)" % s['n'] if s['traced_obj'] else 'HOLDER') + '.a%d' % s['n'],
                   'sub': "TABLE[%s]" % ("T('key%d', %d)" % (s['n'], s['n']) if s['traced_obj'] else str(s['n']))}[s['target']]
            if s['value'] is None and s['target'] != 'name':
                tgt = 'v%d' % s['n']
            hint = s['hint'].replace("'ann'", "'ann%d'" % s['n'])
            val = None if s['value'] is None else s['value'].replace("'v'", "'val%d'" % s['n'])
            lines.append('%s%s: %s%s' % (pad, tgt, hint, '' if val is None else ' = ' + val))
        elif k == 'assign':
            lines.append('%sw%d = %s' % (pad, s['n'], s['value'].replace("'a'", "'asg%d'" % s['n'])))
        elif k == 'expr':
            lines.append("%sT('expr%d', None)" % (pad, s['n']))
        elif k == 'def':
            for d in s['decos']:
                lines.append('%s@%s' % (pad, d))
            first = 'self, ' if scope == 'class' and 'staticmethod' not in s['decos'] and 'classmethod' not in s['decos'] else \
                    'cls, ' if 'classmethod' in s['decos'] else ''
            if 'property' in s['decos']:
                sig = '(self)%s' % (' -> %s' % s['hint'] if s['annotated'] else '')
            else:
                sig = '(%sp%s)%s' % (first, ': %s' % s['hint'] if s['annotated'] else '', ' -> %s' % s['hint'] if s['annotated'] and s['ret'] else '')
            lines.append('%s%sdef f%d%s:' % (pad, 'async ' if s['async'] else '', s['n'], sig))
            _render_body(s['body'], ind + 1, 'func', lines)
            if 'property' in s['decos']:
                lines.append('%s    return %s' % (pad, '1' if s['hint'] == 'int' else "'s'"))
            else:
                lines.append('%s    return p' % pad)
        elif k == 'class':
            for d in s['decos']:
                lines.append('%s@%s' % (pad, d))
            lines.append('%sclass C%d:' % (pad, s['n']))
            lines.append('%s    """class doc"""' % pad)
            _render_body(s['body'], ind + 1, 'class', lines)
        elif k == 'ctrl':
            kind = s['kind']
            if kind == 'if':
                lines.append("%sif T('cond%d', True):" % (pad, s['n']))
                _render_body(s['body'], ind + 1, scope, lines)
                lines += ['%selse:' % pad, '%s    pass' % pad]
            elif kind == 'for':
                lines.append('%sfor _i%d in range(2):' % (pad, s['n']))
                _render_body(s['body'], ind + 1, scope, lines)
            elif kind == 'while':
                lines.append('%s_n%d = 0' % (pad, s['n']))
                lines.append('%swhile _n%d < 1:' % (pad, s['n']))
                lines.append('%s    _n%d += 1' % (pad, s['n']))
                _render_body(s['body'], ind + 1, scope, lines)
            elif kind == 'try':
                lines.append('%stry:' % pad)
                _render_body(s['body'], ind + 1, scope, lines)
                lines += ['%sfinally:' % pad, "%s    T('finally%d', None)" % (pad, s['n'])]
            elif kind == 'with':
                lines.append('%swith contextlib.nullcontext():' % pad)
                _render_body(s['body'], ind + 1, scope, lines)
            else:
                lines.append('%smatch %d:' % (pad, s['n']))
                lines.append('%s    case int():' % pad)
                _render_body(s['body'], ind + 2, scope, lines)
                lines += ['%s    case _:' % pad, '%s        pass' % pad]


def strategy(tier):
    @st.composite
    def case(draw):
        counter = [0]
        depth = draw(st.sampled_from([1, 2, 2, 3] if tier == 'quick' else [1, 2, 3, 3]))
        body = draw(stmts(depth, 'module', counter))
        if draw(st.integers(0, 3)) == 0:
            # one case in four: a class (or the module itself) mixing definitions with unsupported and supported hints in a drawn order
            defs = []
            for bad in draw(st.permutations([True, False, False])):
                counter[0] += 1
                defs.append({'k': 'def', 'async': draw(st.integers(0, 4)) == 0, 'n': counter[0], 'annotated': True,
                             'hint': draw(st.sampled_from(BAD_HINT_SRC if bad else ['int', 'str'])),
                             'decos': draw(st.sampled_from([[], [], ['staticmethod'], ['classmethod']])) if not bad else [],
                             'ret': draw(st.booleans()), 'body': [{'k': 'expr', 'n': counter[0] + 1000}]})
            if draw(st.booleans()) or draw(st.booleans()):
                counter[0] += 1
                body = body + [{'k': 'class', 'n': counter[0], 'decos': [], 'body': defs}]
            else:
                for d in defs:
                    d['decos'] = []
                body = body + defs
        return {'doc': draw(st.booleans()), 'future': draw(st.sampled_from([[], [], ['annotations'], ['annotations', 'division']])),
                'body': body,
                'pep526': draw(st.booleans()) or draw(st.booleans()),
                'place_func': draw(st.sampled_from(['LAST_BEFORE_DECOR_HOSTILE', 'LAST', 'FIRST'])),
                'place_type': draw(st.sampled_from(['LAST', 'FIRST', 'LAST_BEFORE_DECOR_HOSTILE'])),
                'default_conf': draw(st.booleans()), 'behavioural': draw(st.integers(0, 2)) == 0}
    return case()


# ------------------------------------------------------------------ structural oracle
INJ_DECO = '__beartype__'
INJ_CALL = '__die_if_unbearable_beartype__'
INJ_MODULE = 'beartype.claw._ast._clawaststar'


def _conf(case):
    from beartype import BeartypeConf, BeartypeDecorPlace
    kw = {'claw_is_pep526': case['pep526'], 'claw_decor_place_func': BeartypeDecorPlace[case['place_func']],
          'claw_decor_place_type': BeartypeDecorPlace[case['place_type']]}
    if not case['default_conf']:
        from beartype import BeartypeStrategy
        kw['strategy'] = BeartypeStrategy.On
    return BeartypeConf(**kw)


def _is_inj_deco(d):
    return (isinstance(d, ast.Name) and d.id == INJ_DECO) or (isinstance(d, ast.Call) and isinstance(d.func, ast.Name) and d.func.id == INJ_DECO)


def _annotated(fn):
    a = fn.args
    params = a.posonlyargs + a.args + a.kwonlyargs + ([a.vararg] if a.vararg else []) + ([a.kwarg] if a.kwarg else [])
    return fn.returns is not None or any(p.annotation is not None for p in params)


def strip_and_validate(tree, case, fail):
    """Remove the injected artifacts from ``tree`` in place, validating each against the rule."""
    body = tree.body
    # 1. the import: exactly one, right after the docstring / __future__ prefix
    idx = 0
    if body and isinstance(body[0], ast.Expr) and isinstance(getattr(body[0], 'value', None), ast.Constant) and isinstance(body[0].value.value, str):
        idx = 1
    while idx < len(body) and isinstance(body[idx], ast.ImportFrom) and body[idx].module == '__future__':
        idx += 1
    inj = [i for i, s in enumerate(body) if isinstance(s, ast.ImportFrom) and s.module == INJ_MODULE]
    if inj != [idx]:
        fail('import-misplaced', 'injected import at indices %r, expected exactly [%d]' % (inj, idx))
    for i in reversed(inj):
        del body[i]

    def walk(stmts_, scope):
        i = 0
        while i < len(stmts_):
            s = stmts_[i]
            if isinstance(s, ast.Expr) and isinstance(s.value, ast.Call) and isinstance(s.value.func, ast.Name) and s.value.func.id == INJ_CALL:
                prev = stmts_[i - 1] if i else None
                ok = (isinstance(prev, ast.AnnAssign) and prev.value is not None and scope != 'class' and case['pep526'])
                if not ok:
                    fail('check-statement-misplaced', 'injected check at line %s does not follow a valued annotated assignment outside a class body' % getattr(s, 'lineno', '?'))
                else:
                    args = s.value.args
                    tgt = ast.dump(prev.target).replace('Store()', 'Load()')
                    if len(args) < 2 or ast.dump(args[0]) != tgt or ast.dump(args[1]) != ast.dump(prev.annotation):
                        fail('check-statement-arguments', 'injected check at line %s does not name the assigned target and its annotation' % s.lineno)
                    if s.lineno != prev.lineno and s.lineno != getattr(prev, 'end_lineno', prev.lineno):
                        fail('injected-node-position', 'injected check carries line %s, the assignment is on %s' % (s.lineno, prev.lineno))
                    prev._checked = True
                del stmts_[i]
                continue
            if isinstance(s, (ast.FunctionDef, ast.AsyncFunctionDef, ast.ClassDef)):
                is_cls = isinstance(s, ast.ClassDef)
                want = is_cls or (_annotated(s) and scope != 'class')
                place = case['place_type'] if is_cls else case['place_func']
                pos = [j for j, d in enumerate(s.decorator_list) if _is_inj_deco(d)]
                exp_pos = [] if not want else ([len(s.decorator_list) - 1] if place == 'FIRST' else [0])
                if pos != exp_pos:
                    what = 'class' if is_cls else ('method' if scope == 'class' else 'function')
                    if want and not pos:
                        fail('decorator-missing:%s' % what, '%s %s at line %d is not decorated' % (what, s.name, s.lineno))
                    elif pos and not want:
                        fail('decorator-unexpected:%s' % what, '%s %s at line %d is decorated' % (what, s.name, s.lineno))
                    else:
                        fail('decorator-position:%s:%s' % (what, place), '%s %s: injected decorator at %r of %d, expected %r' % (
                            what, s.name, pos, len(s.decorator_list), exp_pos))
                for j in pos:
                    d = s.decorator_list[j]
                    has_conf = isinstance(d, ast.Call) and any(kw.arg == 'conf' for kw in d.keywords)
                    # non-default configurations must be passed on; the hookable default differs from BeartypeConf() by its
                    # warning class, so a conf= argument is accepted (not required) for the default configuration
                    if not case['default_conf'] and not has_conf:
                        fail('decorator-lacks-conf', '%s at line %d: non-default configuration not passed to the injected decorator' % (s.name, s.lineno))
                for j in reversed(pos):
                    del s.decorator_list[j]
                walk(s.body, 'class' if is_cls else 'func')
            else:
                for field in ('body', 'orelse', 'finalbody'):
                    sub = getattr(s, field, None)
                    if isinstance(sub, list) and sub and isinstance(sub[0], ast.stmt):
                        walk(sub, scope)
                for h in getattr(s, 'handlers', []) or []:
                    walk(h.body, scope)
                for c in getattr(s, 'cases', []) or []:
                    walk(c.body, scope)
            i += 1
        # every qualifying annotated assignment is checked
        for s in stmts_:
            if isinstance(s, ast.AnnAssign) and s.value is not None and scope != 'class' and case['pep526'] and not getattr(s, '_checked', False):
                kind = type(s.target).__name__
                fail('assignment-unchecked:%s' % kind, 'valued annotated assignment to a %s target at line %d has no check after it' % (kind, s.lineno))
    walk(body, 'module')


def structural(case, src, fail):
    from beartype.claw._ast.clawastmain import BeartypeNodeTransformer
    from beartype.claw._package._clawpkgmake import make_conf_hookable
    conf = make_conf_hookable(_conf(case))
    orig = ast.parse(src)
    try:
        new = BeartypeNodeTransformer(conf=conf, module_name='c05mod').visit(ast.parse(src))
    except Exception as e:
        fail('transformer-raised:%s' % type(e).__name__, repr(e))
        return
    try:
        compile(new, '<c05>', 'exec')
    except Exception as e:
        fail('transformed-module-does-not-compile:%s' % type(e).__name__, repr(e))
    strip_and_validate(new, case, fail)
    a, b = ast.dump(orig, include_attributes=True), ast.dump(new, include_attributes=True)
    if a != b:
        # locate the first differing line for the report
        x, y = ast.dump(orig, include_attributes=True, indent=1).splitlines(), ast.dump(new, include_attributes=True, indent=1).splitlines()
        d = next((i for i, (p, q) in enumerate(zip(x, y)) if p != q), min(len(x), len(y)))
        lab = 'positions' if ast.dump(orig) == ast.dump(new) else 'structure'
        fail('original-nodes-changed:%s' % lab, 'first difference: %r vs %r' % (x[d:d + 2], y[d:d + 2]))


# ------------------------------------------------------------------ behavioural oracle
def hand_rewrite(src, case):
    """My own source-to-source rewriter: what a person would write by hand.  Returns (new source, line map new->orig)."""
    tree = ast.parse(src)
    lines = src.splitlines()
    inserts = {}      # orig line number (1-based) -> list of lines to insert BEFORE it

    def before(lineno, text):
        inserts.setdefault(lineno, []).append(text)
    body = tree.body
    idx = 0
    if body and isinstance(body[0], ast.Expr) and isinstance(getattr(body[0], 'value', None), ast.Constant) and isinstance(body[0].value.value, str):
        idx = 1
    while idx < len(body) and isinstance(body[idx], ast.ImportFrom) and body[idx].module == '__future__':
        idx += 1
    first_line = body[idx].lineno if idx < len(body) else len(lines) + 1
    before(first_line, 'from beartype import beartype as _BT; from beartype.door import die_if_unbearable as _DIE; from c05conf import CONF as _CONF')

    def walk(stmts_, scope):
        for s in stmts_:
            ind = ' ' * s.col_offset
            if isinstance(s, (ast.FunctionDef, ast.AsyncFunctionDef, ast.ClassDef)):
                is_cls = isinstance(s, ast.ClassDef)
                want = is_cls or (_annotated(s) and scope != 'class')
                if want:
                    place = case['place_type'] if is_cls else case['place_func']
                    top = s.decorator_list[0].lineno if s.decorator_list else s.lineno
                    before(s.lineno if place == 'FIRST' else top, '%s@_BT(conf=_CONF)' % ind)
                walk(s.body, 'class' if is_cls else 'func')
            elif isinstance(s, ast.AnnAssign):
                if s.value is not None and scope != 'class' and case['pep526']:
                    tgt = ast.get_source_segment(src, s.target)
                    ann = ast.get_source_segment(src, s.annotation)
                    before(s.end_lineno + 1, '%s_DIE(%s, %s, conf=_CONF)' % (ind, tgt, ann))
            else:
                for field in ('body', 'orelse', 'finalbody'):
                    sub = getattr(s, field, None)
                    if isinstance(sub, list) and sub and isinstance(sub[0], ast.stmt):
                        walk(sub, scope)
                for c in getattr(s, 'cases', []) or []:
                    walk(c.body, scope)
    walk(body, 'module')
    out, linemap = [], {}
    for i, text in enumerate(lines, 1):
        for ins in inserts.get(i, ()):
            out.append(ins)
            linemap[len(out)] = i if not ins.lstrip().startswith('_DIE') else i - 1
        out.append(text)
        linemap[len(out)] = i
    for ins in inserts.get(len(lines) + 1, ()):
        out.append(ins)
        linemap[len(out)] = len(lines)
    return '\n'.join(out) + '\n', linemap


def _observe(arg):
    """Runs in a forked child: import the module one way, then probe everything it defines."""
    import importlib
    import traceback
    warnings.simplefilter('ignore')
    root, mode, case = arg['root'], arg['mode'], arg['case']
    sys.path.insert(0, root)
    conf = _conf(case)
    cm = types_module('c05conf')
    # the hand-written reference uses the configuration the hook documents: decoration-time failures are reduced to
    # BeartypeClawDecorWarning (built through the public API only)
    from beartype import BeartypeConf
    from beartype.roar import BeartypeClawDecorWarning
    kw = dict(conf.kwargs)
    kw['warning_cls_on_decorator_exception'] = BeartypeClawDecorWarning
    cm.CONF = BeartypeConf(**kw)
    if mode == 'hooked':
        from beartype.claw import beartype_package
        beartype_package('c05hooked', conf=conf)
    name = {'hooked': 'c05hooked.mod', 'hand': 'c05hand.mod', 'plain': 'c05plain.mod'}[mode]
    out = {'import': 'ok', 'line': None, 'warnings': []}
    with warnings.catch_warnings(record=True) as wl:
        warnings.simplefilter('always')
        try:
            mod = importlib.import_module(name)
        except BaseException as e:
            mod = sys.modules.get(name)
            line = None
            for fr in traceback.extract_tb(e.__traceback__):
                if fr.filename.endswith('mod.py'):
                    line = fr.lineno
            out['import'] = 'raised:' + type(e).__name__
            out['line'] = line
    out['warnings'] = sorted({w.category.__name__ for w in wl if 'Claw' in w.category.__name__})
    log = None
    for m in (mod, sys.modules.get(name)):
        if m is not None and hasattr(m, 'LOG'):
            log = list(m.LOG)
            break
    out['trace'] = log
    probes = {}
    if mod is not None and out['import'] == 'ok':
        def probe(label, fn):
            try:
                r = fn()
                if hasattr(r, '__await__'):
                    try:
                        r.send(None)
                    except StopIteration:
                        pass
                    except BaseException as e:
                        probes[label] = type(e).__name__
                        return
                probes[label] = 'ok'
            except BaseException as e:
                probes[label] = type(e).__name__

        def visit(ns, prefix, inst=None):
            for k, v in list(vars(ns).items()):
                if k.startswith('f') and k[1:].isdigit():
                    raw = vars(ns)[k]
                    for tag, val in (('int', 1), ('str', 's')):
                        if isinstance(raw, property):
                            probe('%s%s.get' % (prefix, k), lambda k=k: getattr(inst, k))
                        elif inst is not None and not isinstance(raw, staticmethod):
                            probe('%s%s(%s)' % (prefix, k, tag), lambda k=k, val=val: getattr(inst, k)(val))
                        else:
                            probe('%s%s(%s)' % (prefix, k, tag), lambda k=k, val=val: getattr(ns, k)(val))
                elif k.startswith('C') and k[1:].isdigit() and isinstance(v, type):
                    try:
                        visit(v, prefix + k + '.', v())
                    except BaseException as e:
                        probes[prefix + k] = 'ctor:' + type(e).__name__
        visit(mod, '')
    out['probes'] = probes
    return out


def types_module(name):
    import types
    m = types.ModuleType(name)
    sys.modules[name] = m
    return m


def behavioural(case, src, fail):
    root = tempfile.mkdtemp(prefix='c05_', dir=os.environ.get('TMPDIR') or '/tmp')
    try:
        hand, linemap = hand_rewrite(src, case)
        for pkg, text in (('c05hooked', src), ('c05hand', hand), ('c05plain', src)):
            os.makedirs(os.path.join(root, pkg))
            open(os.path.join(root, pkg, '__init__.py'), 'w').close()
            with open(os.path.join(root, pkg, 'mod.py'), 'w') as fh:
                fh.write(text)
        res = {}
        for mode in ('hooked', 'hand', 'plain'):
            r = isolate.call(_observe, {'root': root, 'mode': mode, 'case': case}, timeout=90)
            if isinstance(r, dict) and r.get('timeout'):
                return None
            res[mode] = r
        hk, hd, pl = res['hooked'], res['hand'], res['plain']
        # listed known finding: valued annotated assignments to subscript targets are left unchecked by the hook
        sub = ':subscript-target' if case['pep526'] and _has_checked_subscript(ast.parse(src)) else ''
        if hd['line'] is not None:
            hd = dict(hd, line=linemap.get(hd['line'], hd['line']))
        if pl['import'] != 'ok':
            return res      # the module fails by itself: nothing to compare
        unsupported_def = _import_time_unsupported(case['body'])
        if unsupported_def and hk['import'] == 'ok' and hd['import'] == 'ok' and 'BeartypeClawDecorWarning' not in hk['warnings']:
            fail('unsupported-hint-no-warning', 'a definition with an unsupported hint was imported under the hook without BeartypeClawDecorWarning (warnings: %r)' % (hk['warnings'],))
        # independent of the hand-written module (which goes through the same decorator): every reachable annotated definition
        # with a supported hint rejects an argument of the wrong type, whatever else its module or class contains
        if hk['import'] == 'ok':
            for label, has_bad_sibling in _must_reject(case['body'], ''):
                if label in hk['probes'] and not hk['probes'][label].endswith('Violation'):
                    fail('annotated-definition-left-unchecked%s' % (':sibling-of-unsupported-hint' if has_bad_sibling else ''),
                         'probe %s under the hook -> %r, expected a violation' % (label, hk['probes'][label]))
        # hooked == hand-written
        if (hk['import'], hk['line']) != (hd['import'], hd['line']):
            what = 'line' if hk['import'] == hd['import'] else 'outcome'
            fail('hooked-vs-handwritten:import-%s%s' % (what, sub), 'hooked import -> %s at line %s, hand-written -> %s at line %s' % (
                hk['import'], hk['line'], hd['import'], hd['line']))
        elif hk['import'] == 'ok':
            if hk['probes'] != hd['probes']:
                d = sorted(k for k in set(hk['probes']) | set(hd['probes']) if hk['probes'].get(k) != hd['probes'].get(k))
                unsupported = any(b in src for b in (': 3', '-> 3', 'UNSUPPORTED'))
                fail('hooked-vs-handwritten:probes%s%s' % (':module-with-unsupported-hint' if unsupported else '', sub),
                     'probe %s: hooked %r hand-written %r' % (d[0], hk['probes'].get(d[0]), hd['probes'].get(d[0])))
            if hk['trace'] != hd['trace']:
                fail('hooked-vs-handwritten:trace%s' % sub, 'hooked trace %r, hand-written %r' % (hk['trace'], hd['trace']))
        # hooked == untouched whenever nothing violates (judged by the hand-written reference importing cleanly and all
        # conforming probes passing); the trace then shows that every original expression ran exactly once
        if hk['import'] == 'ok' and hd['import'] == 'ok' and hk['trace'] is not None and pl['trace'] is not None and hk['trace'] != pl['trace']:
            extra = list(hk['trace'])
            for k in pl['trace']:
                if k in extra:
                    extra.remove(k)
            kinds = sorted({''.join(c for c in k if not c.isdigit()) for k in extra})
            fail('extra-evaluation:%s' % '+'.join(kinds) if extra else 'evaluation-order-changed',
                 'untouched trace %r, hooked trace %r (extra evaluations %r)' % (pl['trace'], hk['trace'], extra))
        return res
    finally:
        shutil.rmtree(root, ignore_errors=True)


def _must_reject(body, prefix, in_class=False):
    """[(probe label, the enclosing class or module also holds a definition with an unsupported hint)] for every definition
    reachable by the probes (module level, module-level control flow, class bodies there) that has a supported hint on its
    parameter and no decorator that replaces it by another callable."""
    out = []
    bad = any(s['k'] == 'def' and s['annotated'] and s['hint'] in BAD_HINT_SRC for s in _flat(body))
    for s in _flat(body):
        if s['k'] == 'def' and s['annotated'] and s['hint'] in ('int', 'str') and 'wrapping' not in s['decos'] and 'property' not in s['decos']:
            out.append(('%sf%d(%s)' % (prefix, s['n'], 'str' if s['hint'] == 'int' else 'int'), bad))
        elif s['k'] == 'class':
            out += _must_reject(s['body'], '%sC%d.' % (prefix, s['n']), True)
    return out


def _flat(body):
    for s in body:
        if s['k'] == 'ctrl':
            yield from _flat(s['body'])
        else:
            yield s


def _import_time_unsupported(body):
    """A definition with an unsupported hint that is executed (hence decorated) while the module is imported: at module
    level, inside module-level control flow, or in the body of a class defined there (methods are decorated with the class)."""
    for s in body:
        # (a functools.wraps wrapper written by the user hides the definition: beartype then decorates a (*a, **k) callable
        # whose copied annotations name no parameter, and has nothing to warn about)
        if s['k'] == 'def' and s['annotated'] and s['hint'] in BAD_HINT_SRC and 'wrapping' not in s['decos']:
            return True
        if s['k'] == 'class' and _import_time_unsupported(s['body']):
            return True
        if s['k'] == 'ctrl' and _import_time_unsupported(s['body']):
            return True
    return False


def _has_checked_subscript(tree):
    def walk(stmts_, scope):
        for s in stmts_:
            if isinstance(s, ast.AnnAssign) and s.value is not None and isinstance(s.target, ast.Subscript) and scope != 'class':
                return True
            if isinstance(s, ast.ClassDef):
                if walk(s.body, 'class'):
                    return True
            elif isinstance(s, (ast.FunctionDef, ast.AsyncFunctionDef)):
                if walk(s.body, 'func'):
                    return True
            else:
                for field in ('body', 'orelse', 'finalbody'):
                    sub_ = getattr(s, field, None)
                    if isinstance(sub_, list) and sub_ and isinstance(sub_[0], ast.stmt) and walk(sub_, scope):
                        return True
                for c in getattr(s, 'cases', []) or []:
                    if walk(c.body, scope):
                        return True
        return False
    return walk(tree.body, 'module')


def _features(spec_body, scope='module', depth=0):
    f = set()
    for s in spec_body:
        if s['k'] == 'def':
            if s['annotated'] and (scope in ('class', 'func')):
                f.add('annotated-def-in-' + scope)
            if s['decos']:
                f.add('decorator-stack')
            f |= _features(s['body'], 'func', depth + 1)
        elif s['k'] == 'class':
            f |= _features(s['body'], 'class', depth + 1)
        elif s['k'] == 'ctrl':
            f.add('ctrl:' + s['kind'])
            f |= _features(s['body'], scope, depth + 1)
        elif s['k'] == 'ann' and s['target'] != 'name' and s['value'] is not None:
            f.add('non-name-target')
    return f


def run_case(case):
    src = render(case)
    fails, seen = [], set()

    def fail(sig, detail):
        if sig not in seen:
            seen.add(sig)
            fails.append({'sig': sig, 'detail': 'pep526=%r place_func=%s place_type=%s default_conf=%r\n%s\n%s' % (
                case['pep526'], case['place_func'], case['place_type'], case['default_conf'], src, detail)})
    try:
        ast.parse(src)
    except SyntaxError as e:
        return {'fails': [], 'nontrivial': False, 'classes': ['discarded:syntax'], 'evals': 0, 'extra': {'discarded_syntax': 1}}
    with warnings.catch_warnings():
        warnings.simplefilter('ignore')
        structural(case, src, fail)
    evals = 1
    if case.get('behavioural'):
        r = behavioural(case, src, fail)
        evals += 3 if r else 0
    feats = _features(case['body'])
    if any(b and '.' in lab for lab, b in _must_reject(case['body'], '')):
        feats.add('aa:method-beside-unsupported-hint')
    nontriv = bool(feats & {'annotated-def-in-class', 'annotated-def-in-func', 'non-name-target', 'decorator-stack'})
    return {'fails': fails, 'nontrivial': nontriv, 'evals': evals,
            'classes': sorted(feats)[:8] + ['behavioural' if case.get('behavioural') else 'structural-only',
                                            'future' if case['future'] else 'nofuture']}
