"""C01 - no false alarms: an object that satisfies a hint (judged at full depth by the reference
semantics of vlib.hints) is accepted by every entry point under every sampler draw and every
configuration other than O0."""
from hypothesis import strategies as st

from vlib import hints as H
from vlib import entry as E

PID = 'C01'
LEVEL = 'exploration'
BUDGET = {'quick': 9600, 'thorough': 400000}
CAP_S = {'quick': 150, 'thorough': 3000}
RULE = ('case = (hint node from the shared grammar, conforming object built by construction from the hint, configuration, '
        'draw list); every draw x 7 entry points (is_bearable, die_if_unbearable, TypeHint.is_bearable/.die_if_unbearable, '
        'decorated parameter, decorated return, identity function) plus 8 signature shapes (the hint on a keyword-only, positional-only, defaulted, *args or **kwargs parameter next to unhinted / object / Any parameters that receive a junk object by position or keyword) must accept. non-trivial = hint depth >= 2 or the hint has '
        'a sampled container level with a non-empty container in the object, a union or a literal; distinct by canonical JSON')
ASSUMPTIONS = [
    'reference semantics of vlib/hints.py (written from the PEPs) decides membership; objects failing it are discarded and counted',
    'harness classes are module-level singletons with unique names (beartype coerces hints through a repr-keyed cache)',
]

CONF_SPECS = st.fixed_dictionaries({}, optional={
    'is_random': st.booleans(),
    'strategy': st.sampled_from(['O1', 'Ologn', 'On']),
    'violation_verbosity': st.sampled_from(['MINIMAL', 'DEFAULT', 'MAXIMAL']),
    'is_color': st.sampled_from([True, False, None]),
    'violation_type': st.sampled_from([None, 'UserViolation', 'UserWarnViolation']),
    'is_debug': st.just(False),
})


def max_len(v):
    k = v[0]
    best = 0
    if k in ('list', 'tuple', 'set', 'fset', 'deque', 'mylist', 'userseq', 'userset', 'iter', 'gen'):
        best = len(v[1])
        for i in v[1]:
            best = max(best, max_len(i))
    elif k in ('dict', 'odict', 'ddict', 'chainmap', 'usermap', 'keys', 'values', 'items', 'mproxy', 'counter'):
        best = len(v[1])
        for a, b in v[1]:
            best = max(best, max_len(a), max_len(b) if isinstance(b, list) else 0)
    elif k == 's':
        best = len(v[1])
    elif k == 'range':
        best = int(v[1])
    return best


def draws_for(vast, extra):
    n = min(max_len(vast), 9)
    ds = list(range(max(n, 1)))
    ds += [2 ** 32 - 1, 2 ** 31]
    for e in extra:
        if e not in ds:
            ds.append(e)
    return ds


@st.composite
def _case(draw, tier):
    depth = draw(st.sampled_from([0, 1, 1, 2, 2, 2, 3, 3] + ([4, 5] if tier == 'thorough' else [])))
    node, nex = H.avoid_known_shapes(draw(H.hint_nodes(depth)))
    val = draw(H.conforming(node))
    return {'excluded_known_shape': nex, 'hint': node, 'value': val, 'conf': draw(CONF_SPECS),
            'extra_draws': draw(st.lists(st.integers(0, 2 ** 32 - 1), max_size=2))}


def strategy(tier):
    return _case(tier)


def nontrivial(node, vast):
    kinds = H.node_kinds(node)
    if H.node_depth(node) >= 2:
        return True
    if any(k in ('union', 'lit') for k in kinds):
        return True
    return H.has_sampled_level(node) and max_len(vast) > 0


# the hint on a parameter of every kind (keyword-only, positional-only, defaulted, *args, **kwargs) next to unhinted parameters
SIG_EPS = tuple('sig:' + k for k in E.SIG_SHAPES)


def run_case(case):
    node, vast, spec = case['hint'], case['value'], case['conf']
    x = H.realize(vast)
    root = H.node_kinds(node)[0]
    root = H.known_shape_label(node) or root
    classes = ['root:' + root, 'depth%d' % H.node_depth(node),
               'sampled' if H.has_sampled_level(node) else 'unsampled']
    if not H.conforms(node, x):
        return {'fails': [], 'nontrivial': False, 'classes': classes + ['discarded:not-conforming'], 'evals': 0,
                'extra': {'discarded_nonconforming': 1}}
    fails = []
    evals = 0
    seen = set()
    for r in draws_for(vast, case.get('extra_draws', ())):
        for ep in E.entry_points_for(node) + ('ident',) + SIG_EPS:
            res = E.call_entry(ep, node, vast, spec, r)
            evals += 1
            sig = None
            if res['verdict'] == 'accept':
                if ep == 'ident' and res['result'] is not res['obj']:
                    sig, detail = 'identity-lost:' + classes[0], 'identity function returned another object'
                else:
                    # deprecation warnings about PEP 484 spellings are documented and not verdicts
                    vw = [w for w in res['warnings'] if issubclass(w.category, E.UserWarnViolation) or
                          w.category.__name__.endswith('Violation')]
                    if vw:
                        w = vw[0]
                        sig = 'false-alarm:%s' % classes[0]
                        detail = 'warning %s: %s' % (w.category.__name__, str(w.message)[:300])
            elif res['verdict'] == 'reject':
                sig, detail = 'false-alarm:%s' % classes[0], 'returned False'
            else:
                e = res['exc']
                exp = E.expected_violation_class(spec, 'param' if ep == 'ident' or ep.startswith('sig:') else ep)
                if isinstance(e, exp) or type(e).__name__.endswith('Violation'):
                    sig = 'false-alarm:%s' % classes[0]
                else:
                    sig = 'error:%s@%s' % (type(e).__name__, E.where(e))
                detail = '%s: %s' % (type(e).__name__, E.strip_ansi(str(e))[:400])
            if sig and sig not in seen:
                seen.add(sig)
                fails.append({'sig': sig, 'detail': 'hint=%s obj=%r draw=%d conf=%r ep=%s -> %s' % (
                    H.describe(node), x, r, spec, ep, detail)})
    return {'fails': fails, 'nontrivial': nontrivial(node, vast), 'classes': classes, 'evals': evals,
            'excluded': case.get('excluded_known_shape', 0)}
