"""C20 - an inferred hint always accepts the object it was inferred from."""
import warnings

from hypothesis import strategies as st

from beartype.bite import infer_hint
from beartype.door import is_bearable

from vlib import hints as H
from vlib import entry as E
from vlib import sampler
from vlib.props.c01 import max_len

PID = 'C20'
LEVEL = 'exploration'
BUDGET = {'quick': 8000, 'thorough': 300000}
CAP_S = {'quick': 150, 'thorough': 3000}
# thorough tier only: 300 s x 8 coverage-guided libFuzzer campaigns over the same strategy and oracle (vlib/fuzz_driver.py)
FUZZ = {'thorough': (300, 8)}
RULE = ('case = object AST from a recursive strategy: scalars, builtin containers of any nesting and item mix (empty, homogeneous, '
        'heterogeneous), dict views, ranges, bytes-likes, collections types, user-defined Sequence/Mapping/Set (ABC based and duck-typed by dunder methods), callables, '
        'classes, iterators/generators, self-referential containers (direct and mutual). Round-trip oracle: '
        'is_bearable(obj, infer_hint(obj)) is True for every draw in 0..len-1 plus boundary draws; recursive containers must terminate '
        'and emit a recursion warning. non-trivial = nesting >= 2, heterogeneous items or a non-builtin collection; distinct by canonical JSON')
ASSUMPTIONS = [
    'infer_hint is called with its default (linear-time) configuration, the one the statement describes',
    'objects that are themselves type hints (classes) are only generated as container items, never as the root',
]

_CONT = ('list', 'tuple', 'set', 'fset', 'deque', 'userseq', 'userset', 'mylist', 'duckseq')
_MAPS = ('dict', 'odict', 'ddict', 'chainmap', 'usermap', 'mproxy', 'keys', 'values', 'items', 'duckmap')


class DuckSeq:
    """Sequence by dunder methods only (no ABC inheritance or registration)."""

    def __init__(self, items):
        self._i = list(items)

    def __getitem__(self, i):
        return self._i[i]

    def __len__(self):
        return len(self._i)

    def __contains__(self, x):
        return x in self._i

    def __iter__(self):
        return iter(self._i)

    def __reversed__(self):
        return reversed(self._i)

    def index(self, x):
        return self._i.index(x)

    def count(self, x):
        return self._i.count(x)

    def __repr__(self):
        return 'DuckSeq(%r)' % (self._i,)


class DuckMap:
    """Mapping by dunder methods only."""

    def __init__(self, pairs):
        self._d = dict(pairs)

    def __getitem__(self, k):
        return self._d[k]

    def __len__(self):
        return len(self._d)

    def __contains__(self, x):
        return x in self._d

    def __iter__(self):
        return iter(self._d)

    def __eq__(self, o):
        return self is o

    def __ne__(self, o):
        return self is not o

    def __hash__(self):
        return 11

    def get(self, k, d=None):
        return self._d.get(k, d)

    def items(self):
        return self._d.items()

    def keys(self):
        return self._d.keys()

    def values(self):
        return self._d.values()

    def __repr__(self):
        return 'DuckMap(%r)' % (self._d,)


def objects(depth, hashable=False):
    scalar = st.one_of(
        st.integers(-3, 3).map(lambda i: ['i', i]), st.sampled_from(['', 'a', 'xyz']).map(lambda s: ['s', s]),
        st.sampled_from(['', 'ab']).map(lambda s: ['by', s]), st.just(['n']), st.booleans().map(lambda b: ['b', b]),
        st.sampled_from([0.5, 2.0]).map(lambda f: ['f', f]), st.just(['c', [1.0, 2.0]]),
        st.sampled_from(['VBase', 'VDerived', 'VOther', 'VFooImpl']).map(lambda c: ['obj', c]),
        st.sampled_from(['RED', 'GREEN']).map(lambda e: ['enum', e]),
        st.sampled_from(['int', 'VBase']).map(lambda c: ['class', c]), st.just(['func']),
        st.integers(0, 4).map(lambda n: ['range', n]),
    )
    if depth <= 0:
        return scalar
    sub = st.deferred(lambda: objects(depth - 1, hashable))
    subh = st.deferred(lambda: objects(depth - 1, True))
    items = st.lists(sub, max_size=4)
    itemsh = st.lists(subh, max_size=4)
    opts = [
        items.map(lambda l: ['tuple', l]),
        itemsh.map(lambda l: ['fset', l]),
    ]
    if not hashable:
        pairs = st.lists(st.tuples(subh, st.deferred(lambda: objects(depth - 1, False))), max_size=4).map(
            lambda l: [list(p) for p in l])
        opts += [
            st.tuples(st.sampled_from(['list', 'list', 'deque', 'userseq', 'mylist', 'iter', 'gen', 'duckseq']),
                      st.lists(st.deferred(lambda: objects(depth - 1, False)), max_size=4)).map(lambda t: [t[0], t[1]]),
            st.tuples(st.sampled_from(['set', 'userset']), itemsh).map(lambda t: [t[0], t[1]]),
            st.tuples(st.sampled_from(_MAPS), pairs).map(lambda t: [t[0], t[1]]),
            st.lists(st.tuples(subh, st.integers(0, 3)), max_size=3).map(lambda l: ['counter', [list(p) for p in l]]),
            st.tuples(st.sampled_from(['selfref-list', 'selfref-dict', 'mutual-lists', 'selfref-tuple-list', 'selfref-userseq',
                                       'selfref-userlist', 'selfref-mproxy', 'selfref-usermutual']),
                      st.lists(scalar, max_size=3)).map(lambda t: [t[0], t[1]]),
        ]
    comp = st.one_of(opts)
    return st.integers(0, 3).flatmap(lambda i: scalar if i == 0 else comp)


def realize(v):
    k = v[0]
    if k == 'selfref-list':
        l = [H.realize(i) for i in v[1]]
        l.append(l)
        return l
    if k == 'selfref-dict':
        d = {j: H.realize(i) for j, i in enumerate(v[1])}
        d['self'] = d
        return d
    if k == 'mutual-lists':
        a = [H.realize(i) for i in v[1]]
        b = [a]
        a.append(b)
        return a
    if k == 'selfref-tuple-list':
        l = [H.realize(i) for i in v[1]]
        l.append((l,))
        return l
    if k == 'selfref-userseq':       # cycles made only of user-defined collections (no builtin list / dict on the way)
        u = H.VUserSeq([H.realize(i) for i in v[1]])
        u._items.append(u)
        return u
    if k == 'selfref-userlist':
        import collections
        u = collections.UserList([H.realize(i) for i in v[1]])
        u.append(u)
        return u
    if k == 'selfref-mproxy':
        import types
        d = {j: H.realize(i) for j, i in enumerate(v[1])}
        p = types.MappingProxyType(d)
        d['proxy'] = p
        return p
    if k == 'selfref-usermutual':
        import collections
        a = H.VUserSeq([H.realize(i) for i in v[1]])
        b = collections.UserList([a])
        a._items.append(b)
        return a
    if k in _CONT + ('iter', 'gen'):
        items = [realize(i) for i in v[1]]
        return _wrap(k, items)
    if k in _MAPS:
        pairs = [(realize(a), realize(b)) for a, b in v[1]]
        return _wrapmap(k, pairs)
    return H.realize(v)


def _wrap(k, items):
    import collections
    if k == 'list':
        return items
    if k == 'tuple':
        return tuple(items)
    if k == 'set':
        return set(items)
    if k == 'fset':
        return frozenset(items)
    if k == 'deque':
        return collections.deque(items)
    if k == 'userseq':
        return H.VUserSeq(items)
    if k == 'userset':
        return H.VUserSet(items)
    if k == 'mylist':
        return H.VMyList(items)
    if k == 'duckseq':
        return DuckSeq(items)
    if k == 'iter':
        return iter(items)
    return H._mk_gen(items)


def _wrapmap(k, pairs):
    import collections
    import types
    d = dict(pairs)
    return {'dict': lambda: d, 'odict': lambda: collections.OrderedDict(pairs),
            'ddict': lambda: collections.defaultdict(int, d),
            'chainmap': lambda: collections.ChainMap(dict(pairs[:len(pairs) // 2]), dict(pairs[len(pairs) // 2:])),
            'usermap': lambda: H.VUserMap(pairs), 'duckmap': lambda: DuckMap(pairs), 'mproxy': lambda: types.MappingProxyType(d),
            'keys': d.keys, 'values': d.values, 'items': d.items}[k]()


def _roundtrip_ok(v):
    try:
        x = realize(v)
        with warnings.catch_warnings():
            warnings.simplefilter('ignore')
            h = infer_hint(x)
            for r in (0, 1, 2, 3):
                with sampler.draw(r):
                    if is_bearable(x, h) is not True:
                        return False
        return True
    except Exception:
        return False


def blame(v):
    """Kind of a minimal sub-object whose own round trip fails (root-cause signature)."""
    children = []
    if v[0] in _CONT + ('iter', 'gen'):
        children = list(v[1])
    elif v[0] in _MAPS:
        children = [c for pair in v[1] for c in pair]
    elif v[0] == 'counter':
        children = [a for a, n in v[1]]
    for c in children:
        if c[0] in ('iter', 'gen'):
            continue
        if not _roundtrip_ok(c):
            return blame(c)
    return v[0]


def _is_recursive(v):
    if v[0].startswith('selfref') or v[0] == 'mutual-lists':
        return True
    if v[0] in _CONT + ('iter', 'gen'):
        return any(_is_recursive(i) for i in v[1])
    if v[0] in _MAPS:
        return any(_is_recursive(a) or _is_recursive(b) for a, b in v[1])
    return False


def _depth(v):
    if v[0] in _CONT + ('iter', 'gen'):
        return 1 + max([_depth(i) for i in v[1]] or [0])
    if v[0] in _MAPS:
        return 1 + max([max(_depth(a), _depth(b)) for a, b in v[1]] or [0])
    if v[0].startswith('selfref') or v[0] == 'mutual-lists':
        return 2
    return 0


def _kinds(v, out):
    out.add(v[0])
    if v[0] in _CONT + ('iter', 'gen'):
        for i in v[1]:
            _kinds(i, out)
    elif v[0] in _MAPS:
        for a, b in v[1]:
            _kinds(a, out)
            _kinds(b, out)
    return out


def _hetero(v):
    if v[0] in _CONT and len({i[0] for i in v[1]}) >= 2:
        return True
    if v[0] in _CONT:
        return any(_hetero(i) for i in v[1])
    return False


@st.composite
def _case(draw, tier):
    d = draw(st.sampled_from([1, 1, 2, 2, 3] + ([4] if tier == 'thorough' else [])))
    obj = draw(objects(d))
    if obj[0] == 'class':
        obj = ['list', [obj]]
    return {'object': obj}


def strategy(tier):
    return _case(tier)


def run_case(case):
    vast = case['object']
    fails, seen, evals = [], set(), 0

    def fail(sig, detail):
        if sig not in seen:
            seen.add(sig)
            fails.append({'sig': sig, 'detail': detail})
    rec = _is_recursive(vast)
    x = realize(vast)
    with warnings.catch_warnings(record=True) as wl:
        warnings.simplefilter('always')
        try:
            hint = infer_hint(x)
        except RecursionError as e:
            fail('infer-recursion-error', 'infer_hint(%r) -> RecursionError' % (vast,))
            hint = None
        except Exception as e:
            fail('infer-error:%s@%s' % (type(e).__name__, E.where(e)), 'infer_hint(%r) raised %r' % (vast, e))
            hint = None
    evals += 1
    kinds = _kinds(vast, set())
    shape = '+'.join(sorted(k for k in kinds if k in ('keys', 'values', 'items', 'selfref-list', 'selfref-dict', 'mutual-lists',
                                                      'selfref-tuple-list', 'selfref-userseq', 'selfref-userlist', 'selfref-mproxy',
                                                      'selfref-usermutual', 'iter', 'gen', 'userseq', 'userset', 'usermap', 'duckseq', 'duckmap',
                                                      'chainmap', 'mproxy', 'counter', 'ddict', 'odict', 'deque', 'mylist', 'range'))) or 'builtin'
    if hint is not None:
        if (vast[0].startswith('selfref') or vast[0] == 'mutual-lists') and not any(
                'Recursion' in w.category.__name__ for w in wl):
            fail('recursive-container-no-warning', 'infer_hint on %r emitted %r' % (vast, [w.category.__name__ for w in wl]))
        n = max(1, min(max_len(vast) + 1, 9)) if not rec else 4
        for r in list(range(n)) + [2 ** 32 - 1]:
            x2 = realize(vast)
            try:
                with warnings.catch_warnings():
                    warnings.simplefilter('ignore')
                    h2 = infer_hint(x2)
                    with sampler.draw(r):
                        ok = is_bearable(x2, h2)
            except Exception as e:
                ok = e
            evals += 1
            if ok is not True:
                fail('inferred-hint-rejects:%s' % blame(vast),
                     'obj=%r inferred %r, is_bearable -> %r (draw %d)' % (x2 if not rec else vast, h2, ok, r))
                break
    nontriv = _depth(vast) >= 2 or _hetero(vast) or bool(kinds & {'userseq', 'userset', 'usermap', 'mylist', 'chainmap', 'keys', 'duckseq', 'duckmap',
                                                                  'values', 'items', 'counter', 'deque', 'mproxy'})
    return {'fails': fails, 'nontrivial': nontriv, 'classes': ['root:' + vast[0], 'depth%d' % _depth(vast), 'shape:' + shape[:60]],
            'evals': evals}
