"""C09 - call-time checking cost does not grow with container size.

The same hint and object *shape* are instantiated with instrumented containers (vlib/spies.py) at a
sweep of sizes; the number of items read while deciding must be identical at every size >= 1 and
bounded by a constant computed from the hint alone."""
import typing

from hypothesis import strategies as st

from beartype import beartype
from beartype.door import die_if_unbearable, is_bearable
from beartype.roar import BeartypeCallHintParamViolation, BeartypeDoorHintViolation

from vlib import hints as H
from vlib import sampler, spies

PID = 'C09'
LEVEL = 'exploration'
BUDGET = {'quick': 480, 'thorough': 12000}
CAP_S = {'quick': 200, 'thorough': 3000}
SIZES = {'quick': [1, 2, 3, 10, 1000, 20000], 'thorough': [1, 2, 3, 10, 1000, 100000]}
RULE = ('case = (container-bearing hint from a dedicated grammar: sequence / set / deque / mapping / Collection / Iterable families, '
        'nested up to depth 3, optionally inside Optional/Union/fixed tuples; object shape: instrumented list/tuple/set/frozenset/deque/dict/'
        'OrderedDict/defaultdict subclasses and ABC-only Sequence/Collection/Set/Mapping implementations, plus non-collection iterables; '
        'variant: conforming, every-item-violating, first-item-violating, or all containers conforming next to a violating sibling in a fixed tuple; draw). Each case is swept over sizes 1,2,3,10,1000,20000 '
        '(100000 thorough) of the top-level container (inner levels min(n,3)). Oracle: item reads (getitem calls + items handed out by '
        'iterators) and repr() calls are identical at every size and <= 1 per container level (2 per mapping level) while deciding, <= 2x '
        'that when a rejection is described; non-collection iterables are never iterated. Item hints include user generics (class G(list[int]), two unerased bases, dict[str, int]). non-trivial = nesting >= 2 (the sweep always '
        'reaches size >= 1000); distinct by canonical JSON')
ASSUMPTIONS = [
    '__len__, isinstance hooks, __hash__, __eq__ and repr() are allowed protocol calls; what is bounded is item reads',
    'describing a rejection may read the sampled item a second time (observed: exactly 1 + 1) - accepted; the count must not depend on size',
    'the statement says one repr(); the violation constructor calls repr once for the message and once per culprit: the check asserts size independence and <= 3',
]

SEQ = ['list', 'List', 'Sequence', 'MutableSequence', 'tupv']
SETS = ['set', 'frozenset', 'AbstractSet', 'MutableSet', 'KeysView']
COLL = ['Collection', 'deque', 'ValuesView']
QUASI = ['Iterable', 'Container', 'Reversible']
MAPS = ['dict', 'Mapping', 'MutableMapping', 'OrderedDict', 'defaultdict']


class GIntList(list[int]):
    """User generic with one unerased base: as an item hint it is checked where the enclosing container is sampled."""
    __hash__ = object.__hash__   # may be an item of a set


class GStrIntDict(dict[str, int]):
    __hash__ = object.__hash__


class GTwoBases(list[int], typing.Collection[int]):
    """Two unerased bases: two checks of the one sampled item."""
    __hash__ = object.__hash__


H.CLASSES.update(GIntList=GIntList, GStrIntDict=GStrIntDict, GTwoBases=GTwoBases)
GENERIC_LEAVES = {'GIntList': lambda j: GIntList([j, j + 1]), 'GStrIntDict': lambda j: GStrIntDict({'k%d' % j: j}),
                  'GTwoBases': lambda j: GTwoBases([j])}


def hints(depth):
    # (user generics are small plain objects here: their own items are not counted, the reads of the spy container holding them are)
    leaf = st.sampled_from([['cls', 'int'], ['cls', 'str'], ['cls', 'VBase'], ['cls', 'GIntList'], ['cls', 'GTwoBases'], ['cls', 'GStrIntDict']])
    key = st.sampled_from([['cls', 'int'], ['cls', 'str']])
    if depth <= 0:
        child = leaf
    else:
        child = st.integers(0, 2).flatmap(lambda i: leaf if i == 0 else st.deferred(lambda: hints(depth - 1)))
    return st.one_of(
        st.tuples(st.sampled_from(SEQ), child).map(lambda t: ['tupv', t[1], 't'] if t[0] == 'tupv' else ['seq', t[0], t[1]]),
        st.tuples(st.sampled_from(SETS), key).map(lambda t: ['reit', t[0], t[1]]),
        st.tuples(st.sampled_from(COLL), child).map(lambda t: ['reit', t[0], t[1]]),
        st.tuples(st.sampled_from(QUASI), child).map(lambda t: ['quasi', t[0], t[1]]),
        st.tuples(st.sampled_from(MAPS), key, child).map(lambda t: ['map', t[0], t[1], t[2]]),
        child.map(lambda c: ['union', [c], 'O']) if depth > 0 else leaf.map(lambda c: ['seq', 'list', c]),
        st.tuples(child, leaf).map(lambda t: ['tupf', [t[0], t[1]], 't']) if depth > 0 else leaf.map(lambda c: ['tupv', c, 't']),
    )


def is_container(node):
    return node[0] in ('seq', 'reit', 'quasi', 'map', 'tupv')


def n_levels(node):
    """Bound on item reads while deciding: 1 per single-argument container node, 2 per mapping node."""
    k = node[0]
    if k in ('seq', 'reit', 'quasi'):
        return 1 + n_levels(node[2])
    if k == 'tupv':
        return 1 + n_levels(node[1])
    if k == 'map':
        return 2 + n_levels(node[2]) + n_levels(node[3])
    if k in ('union', 'tupf'):
        return sum(n_levels(m) for m in node[1])
    return 0


def nesting(node):
    k = node[0]
    if k in ('seq', 'reit', 'quasi'):
        return 1 + nesting(node[2])
    if k == 'tupv':
        return 1 + nesting(node[1])
    if k == 'map':
        return 1 + max(nesting(node[2]), nesting(node[3]))
    if k in ('union', 'tupf'):
        return max([nesting(m) for m in node[1]] or [0])
    return 0


SHAPES = {
    'list': ['SpyList'], 'List': ['SpyList'], 'Sequence': ['SpyList', 'SpyTuple', 'SpySeq', 'SpyDeque'],
    'MutableSequence': ['SpyList', 'SpyDeque'], 'tupv': ['SpyTuple'],
    'set': ['SpySet'], 'frozenset': ['SpyFrozenSet'], 'AbstractSet': ['SpySet', 'SpyFrozenSet', 'SpyAbstractSet'],
    'MutableSet': ['SpySet'], 'KeysView': ['keys'],
    'Collection': ['SpyList', 'SpyTuple', 'SpySet', 'SpyColl', 'SpySeq', 'SpyDeque'], 'deque': ['SpyDeque'], 'ValuesView': ['values'],
    # non-collections in every flavour: plain iterable, one-shot iterators that are Sized only or Container only
    'Iterable': ['SpyList', 'SpyTuple', 'SpySet', 'SpyColl', 'SpyIterable', 'SpyDict', 'SpySizedIterator', 'SpyContainerIterator', 'SpyIterator'],
    'Container': ['SpyList', 'SpySet', 'SpyColl', 'SpyContainerIterator'],
    'Reversible': ['SpyList', 'SpyTuple', 'SpyDeque'],
    'dict': ['SpyDict', 'SpyOrderedDict', 'SpyDefaultDict'], 'Mapping': ['SpyDict', 'SpyMap'], 'MutableMapping': ['SpyDict'],
    'OrderedDict': ['SpyOrderedDict'], 'defaultdict': ['SpyDefaultDict'],
}


NON_COLLECTIONS = ('SpyIterable', 'SpySizedIterator', 'SpyContainerIterator', 'SpyIterator')


@st.composite
def shape_for(draw, node):
    """A JSON 'shape': which spy class realises each container level, and the leaf values."""
    k = node[0]
    if k == 'cls':
        return ['leaf', node[1]]
    if k == 'union':
        return draw(shape_for(node[1][0]))
    if k == 'tupf':
        return ['tupf', [draw(shape_for(m)) for m in node[1]]]
    fam = 'tupv' if k == 'tupv' else node[1]
    cls = draw(st.sampled_from(SHAPES[fam]))
    if k == 'map':
        return ['map', cls, node[2][1], draw(shape_for(node[3]))]
    child = node[1] if k == 'tupv' else node[2]
    if cls in ('SpySet', 'SpyFrozenSet', 'SpyAbstractSet', 'keys', 'SpyDict') and child[0] != 'cls':
        cls = 'SpyList' if 'SpyList' in SHAPES[fam] else SHAPES[fam][0]
        if cls in ('SpySet', 'SpyFrozenSet', 'SpyAbstractSet', 'keys'):
            return ['cont', cls, ['leaf', 'int']]
    return ['cont', cls, draw(shape_for(child))]


@st.composite
def _case(draw, tier):
    d = draw(st.sampled_from([0, 1, 1, 2, 2, 3]))
    node = draw(hints(d))
    variant = draw(st.sampled_from(['ok', 'ok', 'all-bad', 'first-bad', 'tail-bad']))
    if variant == 'tail-bad':
        # fixed tuple (container(s)..., leaf) at the root
        node = ['tupf', [node] + ([draw(hints(max(d - 1, 0)))] if draw(st.booleans()) else []) + [['cls', 'int']], 't']
    return {'hint': node, 'shape': draw(shape_for(node)), 'variant': variant,
            'draw': draw(st.sampled_from([0, 0, 1, 7, 2 ** 32 - 1])), 'via_fwdref': draw(st.sampled_from([True, False, False, False]))}


def strategy(tier):
    return _case(tier)


def _leaf(name, j, bad):
    if bad:
        return H.VAlien()
    if name in GENERIC_LEAVES:
        return GENERIC_LEAVES[name](j)
    return {'int': j, 'str': 's%d' % j, 'VBase': H.VBase()}[name]


def build(shape, n, variant, top=True):
    """Realise a shape at top-level size n (inner levels min(n, 3)).  variant applies at the deepest leaves of
    the first item only ('first-bad') or of every item ('all-bad')."""
    k = shape[0]
    if variant == 'tail-bad' and k != 'tupf':
        variant = 'ok'
    if k == 'leaf':
        return _leaf(shape[1], n, variant in ('all-bad', 'first-bad'))
    if k == 'tupf':
        if variant == 'tail-bad':
            # every container conforms; the culprit is the last member of the fixed tuple, so a describing pass has to walk
            # over the (large, conforming) containers before it
            last = len(shape[1]) - 1
            return tuple(build(s, n, 'first-bad' if i == last else 'ok', top) for i, s in enumerate(shape[1]))
        return tuple(build(s, n, variant if i == 0 else 'ok', top) for i, s in enumerate(shape[1]))
    m = n if top else min(n, 3)
    if k == 'map':
        cls, keyname, vshape = shape[1], shape[2], shape[3]
        good = build(vshape, m, 'ok', False)
        bad = build(vshape, m, variant, False) if variant != 'ok' else good
        pairs = [(_leaf(keyname, j, False), bad if (variant == 'all-bad' or j == 0) else good) for j in range(m)]
        if cls == 'SpyDefaultDict':
            d = spies.SpyDefaultDict(lambda: None)
            spies.ACTIVE[0] = False
            dict.update(d, pairs)
            spies.ACTIVE[0] = True
            return d
        if cls == 'SpyMap':
            return spies.SpyMap(pairs)
        return getattr(spies, cls)(pairs)
    cls, cshape = shape[1], shape[2]
    if cshape[0] == 'leaf' and cls in ('SpySet', 'SpyFrozenSet', 'SpyAbstractSet', 'keys', 'SpyDict'):
        items = [(_leaf(cshape[1], j, variant == 'all-bad' or (variant == 'first-bad' and j == 0))) for j in range(m)]
        if variant == 'all-bad':
            items = [H.VAlien()]  # aliens hash alike; one suffices for "every item violates"
    else:
        good = build(cshape, m, 'ok', False)
        bad = build(cshape, m, variant, False) if variant != 'ok' else good
        items = [bad if (variant == 'all-bad' or j == 0) else good for j in range(m)]
    if cls == 'keys':
        return spies.SpyDict([(i, None) for i in items]).keys() if False else dict.fromkeys(items).keys()
    if cls == 'values':
        return dict(enumerate(items)).values()
    if cls == 'SpyDict':
        return spies.SpyDict([(i, None) for i in items])
    return getattr(spies, cls)(items)


def _measure(fn, top=None):
    spies.reset()
    try:
        out = fn()
        err = None
    except Exception as e:
        out, err = None, e
    reads = spies.COUNT['item_read']
    # repr() of the rejected (top-level) object; reprs of nested spies are part of that one repr
    reprs = sum(1 for c, m, i in spies.LOG if m == '__repr__' and i == id(top))
    noncoll_iter = sum(1 for c, m, i in spies.LOG if c in NON_COLLECTIONS and m in ('__iter__', 'MUTATOR:__next__', 'iterator.__next__'))
    return out, err, {'reads': reads, 'reprs': reprs, 'noncoll_iter': noncoll_iter}


_FWD = [0]


def run_case(case):
    node, shape, variant, r = case['hint'], case['shape'], case['variant'], case['draw']
    tier_sizes = SIZES['quick'] if not case.get('thorough') else SIZES['thorough']
    hint = H.build(node)
    if case.get('via_fwdref'):
        # the same hint reached through an absolute forward reference to a module attribute (an alias that is no class)
        import sys
        import types
        mod = sys.modules.get('c09mod') or sys.modules.setdefault('c09mod', types.ModuleType('c09mod'))
        _FWD[0] += 1
        setattr(mod, 'Rec%d' % _FWD[0], hint)
        hint = 'c09mod.Rec%d' % _FWD[0]
    bound = n_levels(node)
    fails, seen, evals = [], set(), 0

    def fail(sig, detail):
        if sig not in seen:
            seen.add(sig)
            fails.append({'sig': sig, 'detail': 'hint=%s shape=%r variant=%s draw=%d: %s' % (H.describe(node), shape, variant, r, detail)})

    def f(p):
        return None
    f.__annotations__ = {'p': hint}
    deco = beartype(f)
    per_ep = {}
    for n in tier_sizes:
        try:
            spies.ACTIVE[0] = False
            x = build(shape, n, variant)
        finally:
            spies.ACTIVE[0] = True
        for ep, call in (('is_bearable', lambda: is_bearable(x, hint)),
                         ('die_if_unbearable', lambda: die_if_unbearable(x, hint)),
                         ('param', lambda: deco(x))):
            with sampler.draw(r):
                out, err, c = _measure(call, x)
            evals += 1
            if err is not None and not isinstance(err, (BeartypeDoorHintViolation, BeartypeCallHintParamViolation)):
                fail('error:%s' % type(err).__name__, 'size %d ep %s raised %r' % (n, ep, err))
                continue
            rejected = (out is False) if ep == 'is_bearable' else err is not None
            describing = err is not None
            c['verdict'] = 'reject' if rejected else 'accept'
            per_ep.setdefault(ep, []).append((n, c))
            limit = bound * (2 if describing else 1)
            if case.get('via_fwdref'):
                # through a forward-reference proxy the referent is checked once by the wrapper's isinstance() and once more,
                # with its own description, by the proxy: a constant factor, still fixed by the hint alone
                limit *= 2
            if c['reads'] > limit:
                fail('reads-exceed-bound:%s' % ('describing' if describing else 'deciding'),
                     'size %d ep %s read %d items, bound from the hint is %d' % (n, ep, c['reads'], limit))
            if c['noncoll_iter']:
                fail('non-collection-iterated', 'size %d ep %s called iter() on a non-collection iterable' % (n, ep))
            if c['reprs'] > (6 if case.get('via_fwdref') else 3):
                fail('repr-count', 'size %d ep %s called repr() %d times on the checked object' % (n, ep, c['reprs']))
    # identical cost at every size, compared among runs with the same verdict (which item of a set is "first",
    # and which index a draw selects, legitimately depend on the size)
    for ep, rows in per_ep.items():
        for verdict in ('accept', 'reject'):
            same = [(n, c) for n, c in rows if c['verdict'] == verdict]
            for n, c in same[1:]:
                if c != same[0][1]:
                    which = [k for k in c if c[k] != same[0][1][k]]
                    fail('cost-depends-on-size:%s' % '+'.join(which), 'ep %s: size %d -> %r but size %d -> %r' % (
                        ep, same[0][0], same[0][1], n, c))
                    break
    return {'fails': fails, 'nontrivial': nesting(node) >= 2, 'evals': evals,
            'classes': ['variant:' + variant, 'nesting%d' % nesting(node), 'root:' + (node[1] if node[0] != 'tupv' else 'tupv')
                        if node[0] not in ('union', 'tupf') else 'root:' + node[0]]}
