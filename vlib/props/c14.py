"""C14 - answers do not depend on what was asked before (memoisation is invisible).

A history of public operations followed by a final query runs in a forked pristine process; the
answer of the final query is compared with the answer of a sibling fork that runs the query alone."""
import gc
import json
import sys
import types
import warnings

from hypothesis import strategies as st

from vlib import isolate

import beartype  # noqa: F401  pre-imported (not used) so that forked children do not pay the import cost
import beartype.door  # noqa: F401
import beartype.vale  # noqa: F401
import beartype._util.cache.utilcacheclear  # noqa: F401

PID = 'C14'
LEVEL = 'exploration'
BUDGET = {'quick': 360, 'thorough': 20000}
CAP_S = {'quick': 200, 'thorough': 3000}
MAX_SHARDS = 2
RULE = ('case = history of <= 12 (quick) / 25 (thorough) public operations + one final query, evaluated in a forked pristine process: '
        'is_bearable / die_if_unbearable / is_subhint / TypeHint == / decorate-and-call over hints built fresh but structurally equal, '
        'hash-equal look-alikes (Literal[1]/[True]/[0]/[False], 1/True/1.0 in Annotated metadata), unhashable hints (Annotated[T, []]), '
        'dynamically (re)defined same-named classes (distinct class objects with one qualified name, optionally @beartype-decorated; '
        'hot-reload chains of 2-7 decorated generations; comparisons across the PEP 585/604 and the typing spelling of one container over same-named classes), '
        'string forward references that fail first and are defined later, dropping references + gc.collect() followed by look-alike '
        'allocations, and beartype\'s own cache clearing. Oracle: the same final query in a sibling fork with no history (verdict / exception '
        'class), plus idempotence (asking twice in one process gives the same answer). non-trivial = the history contains an operation whose '
        'hint equals / hashes like / shares a name with the query\'s hint, a failure later repaired, a redefinition, or a gc; distinct by canonical JSON')
ASSUMPTIONS = [
    'answers are compared as (verdict or exception class); messages contain addresses and are not compared',
    'the final query is a pure function of its arguments: dynamic classes are created deterministically from (name, variant) on first use in each process',
]

# ------------------------------------------------------------------ DSL
LEAVES = [['int'], ['str'], ['float'], ['dyn', 'Dyn', 'v1'], ['dyn', 'Dyn', 'v2'], ['dyn', 'Dyn', 'v3'], ['dyn', 'Other', 'v1'],
          ['lit', 1], ['lit', True], ['lit', 0], ['lit', False], ['lit', 'a'], ['fwd', 'Late'], ['fwd', 'Never'],
          # a PEP 695 alias whose value names Late without quotes: evaluating it fails until Late exists and must work afterwards
          ['alias695']]
VALUES = [['i', 1], ['i', 0], ['b', True], ['b', False], ['s', 'a'], ['f', 1.0], ['n'], ['inst', 'Dyn', 'v1'], ['inst', 'Dyn', 'v2'],
          ['inst', 'Dyn', 'v3'], ['inst', 'Other', 'v1']]


def hints(depth):
    leaf = st.sampled_from(LEAVES)
    if depth <= 0:
        return leaf
    sub = st.deferred(lambda: hints(depth - 1))
    comp = st.one_of(
        st.tuples(st.sampled_from(['list', 'List', 'opt', 'tuple', 'dict', 'set', 'Dict', 'type']), sub).map(lambda t: [t[0], t[1]]),
        st.tuples(sub, sub).map(lambda t: ['union', t[0], t[1]]),
        st.tuples(sub, sub).map(lambda t: ['pipe', t[0], t[1]]),
        sub.map(lambda h: ['ann_unhashable', h]),
        st.tuples(sub, st.sampled_from([1, True, 1.0, 0, False])).map(lambda t: ['ann_meta', t[0], t[1]]),
    )
    return st.integers(0, 2).flatmap(lambda i: leaf if i == 0 else comp)


def values(depth):
    leaf = st.sampled_from(VALUES)
    if depth <= 0:
        return leaf
    sub = st.deferred(lambda: values(depth - 1))
    return st.one_of(leaf, leaf, st.lists(sub, max_size=2).map(lambda l: ['list', l]), st.lists(sub, max_size=2).map(lambda l: ['tuple', l]),
                     sub.map(lambda v: ['dictv', v]), sub.map(lambda v: ['setv', v]), st.sampled_from(LEAVES[:7]).map(lambda h: ['cls', h]))


SELF_SHAPES = ['type[Self | int]', 'type[Self]', 'Self | int', 'Self', 'list[Self]', 'tuple[Self, ...]', 'dict[str, Self]']
SELF_VALUES = ['own', 'other', 'int']


def selfcalls():
    # PEP 673: the meaning of Self is the class whose method carries the hint, so two decorated classes using the same
    # hint text must each be checked against themselves, whichever was decorated or called first
    return st.tuples(st.just('selfcall'), st.sampled_from(['SA', 'SB']), st.sampled_from(SELF_SHAPES), st.sampled_from(SELF_VALUES)).map(list)


def queries(depth):
    h, v = hints(depth), values(min(depth, 2))
    return st.one_of(
        selfcalls(),
        # the door functions take a public exception_prefix keyword: both are asked with the same explicit prefix now and then
        st.tuples(st.sampled_from(['is_bearable', 'is_bearable', 'die', 'call']), h, v, st.sampled_from(['shared: ', None, None])).map(
            lambda t: [t[0], t[1], t[2]] + ([t[3]] if t[3] and t[0] != 'call' else [])),
        st.tuples(st.sampled_from(['is_subhint', 'typehint_eq']), h, h).map(lambda t: [t[0], t[1], t[2]]),
    )


@st.composite
def focused_query(draw):
    """Query whose answer hinges on *which* class / literal the hint names: a look-alike leaf inside a composite hint and a value
    built to match either the named leaf or its look-alike."""
    pairs = [(['dyn', 'Dyn', 'v1'], ['inst', 'Dyn', 'v1']), (['dyn', 'Dyn', 'v2'], ['inst', 'Dyn', 'v2']), (['dyn', 'Dyn', 'v3'], ['inst', 'Dyn', 'v3']),
             (['lit', 1], ['i', 1]), (['lit', True], ['b', True]), (['lit', 0], ['i', 0]), (['lit', False], ['b', False]),
             (['fwd', 'Late'], ['inst', 'Late', 'v1']), (['alias695'], ['list', [['inst', 'Late', 'v1']]]), (['alias695'], ['n'])]
    leaf, good = draw(st.sampled_from(pairs))
    _l2, other = draw(st.sampled_from(pairs))
    val = draw(st.sampled_from([good, good, other]))
    w = draw(st.sampled_from(['bare', 'list', 'List', 'dict', 'Dict', 'tuple', 'set', 'opt', 'pipe', 'union', 'ann_unhashable', 'ann_meta', 'listlist']))
    hint = {'bare': leaf, 'list': ['list', leaf], 'List': ['List', leaf], 'dict': ['dict', leaf], 'Dict': ['Dict', leaf], 'tuple': ['tuple', leaf],
            'set': ['set', leaf], 'opt': ['opt', leaf], 'pipe': ['pipe', leaf, ['str']], 'union': ['union', leaf, ['str']],
            'ann_unhashable': ['ann_unhashable', leaf], 'ann_meta': ['ann_meta', leaf, 1], 'listlist': ['list', ['list', leaf]]}[w]
    value = {'list': ['list', [val]], 'List': ['list', [val]], 'dict': ['dictv', val], 'Dict': ['dictv', val], 'tuple': ['tuple', [val]],
             'set': ['setv', val], 'listlist': ['list', [['list', [val]]]]}.get(w, val)
    kind = draw(st.sampled_from(['is_bearable', 'is_bearable', 'die', 'call', 'is_subhint', 'typehint_eq']))
    alt = {'list': 'List', 'List': 'list', 'dict': 'Dict', 'Dict': 'dict', 'pipe': 'union', 'union': 'pipe'}
    if kind in ('is_subhint', 'typehint_eq') and w in alt and draw(st.booleans()):
        # the same leaf under the other spelling of the same container (list[C] vs typing.List[C], C | str vs Union[C, str]): the
        # answer hinges on both sides naming the *same* class, and the two spellings do not share beartype's per-spelling caches
        return [kind, hint, [alt[w]] + hint[1:]]
    if kind in ('is_subhint', 'typehint_eq'):
        leaf2 = draw(st.sampled_from(pairs))[0]
        hint2 = [hint[0]] + [leaf2 if x == leaf else x for x in hint[1:]] if w != 'bare' else leaf2
        if w == 'listlist':
            hint2 = ['list', ['list', leaf2]]
        return [kind, hint, hint2]
    return [kind, hint, value]


def related(q):
    """Operations likely to interact with the final query: same hint shape with look-alike leaves."""
    if q[0] == 'selfcall':
        return ['selfcall', 'SB' if q[1] == 'SA' else 'SA', q[2], 'own']     # the same hint text in the other class
    if q[0] in ('is_bearable', 'die') and len(q) > 3:
        return [{'is_bearable': 'die', 'die': 'is_bearable'}[q[0]]] + q[1:]   # the other door function, same hint / prefix
    swaps = {('lit', 1): ['lit', True], ('lit', True): ['lit', 1], ('lit', 0): ['lit', False], ('lit', False): ['lit', 0],
             ('dyn', 'Dyn', 'v1'): ['dyn', 'Dyn', 'v2'], ('dyn', 'Dyn', 'v2'): ['dyn', 'Dyn', 'v1'], ('dyn', 'Dyn', 'v3'): ['dyn', 'Dyn', 'v1']}

    def sw(h):
        if all(not isinstance(x, list) for x in h) and tuple(h) in swaps:
            return swaps[tuple(h)]
        if h[0] == 'ann_meta':
            return ['ann_meta', sw(h[1]), {1: True, True: 1, 1.0: 1, 0: False, False: 0}.get(h[2], 1)]
        return [h[0]] + [sw(x) if isinstance(x, list) else x for x in h[1:]]
    return [q[0], sw(q[1]), q[2] if q[0] not in ('is_subhint', 'typehint_eq') else sw(q[2])]


@st.composite
def _case(draw, tier):
    d = draw(st.sampled_from([0, 1, 1, 2]))
    if draw(st.integers(0, 5)) == 0:
        # hot-reload chain: the same @beartype-decorated class is (re)defined k times under one module and name, each generation
        # being used inside a hint CPython does not cache itself; the last generation must be answered like in a fresh process
        k = draw(st.integers(2, 6))
        w = draw(st.sampled_from(['list', 'dict', 'tuple', 'set', 'pipe', 'listlist']))
        leaf = ['dyn', 'Hot', 'v1']
        hint = {'list': ['list', leaf], 'dict': ['dict', leaf], 'tuple': ['tuple', leaf], 'set': ['set', leaf], 'pipe': ['pipe', leaf, ['str']],
                'listlist': ['list', ['list', leaf]]}[w]
        val = ['inst', 'Hot', 'v1']
        value = {'list': ['list', [val]], 'dict': ['dictv', val], 'tuple': ['tuple', [val]], 'set': ['setv', val], 'pipe': val,
                 'listlist': ['list', [['list', [val]]]]}[w]
        q = [draw(st.sampled_from(['is_bearable', 'die', 'call'])), hint, value]
        hist = []
        for _ in range(k):
            hist.append(['redefine', 'Hot', 'v1', True])
            if draw(st.integers(0, 3)):
                hist.append(q)
        hist.append(['redefine', 'Hot', 'v1', True])
        return {'history': hist, 'final': q, 'late_defined': False, 'chain': True}
    if draw(st.integers(0, 7)) == 0:
        # rebinding chain: a forward-referenced name is unbound / bound to a non-hint placeholder / bound to its class, in a drawn
        # order, while one and the same wrapper (and the door) is asked in between; the last binding decides the reference answer
        w = draw(st.sampled_from(['bare', 'list', 'opt', 'dict', 'tuple']))
        leaf = draw(st.sampled_from([['alias695'], ['fwd', 'Late'], ['fwd', 'Late']]))
        hint = {'bare': leaf, 'list': ['list', leaf], 'opt': ['opt', leaf], 'dict': ['dict', leaf], 'tuple': ['tuple', leaf]}[w]
        val = draw(st.sampled_from([['inst', 'Late', 'v1'], ['inst', 'Late', 'v1'], ['i', 1]]))
        if leaf == ['alias695']:
            val = draw(st.sampled_from([['list', [['inst', 'Late', 'v1']]], ['n'], ['list', [['i', 1]]]]))
        value = {'list': ['list', [val]], 'dict': ['dictv', val], 'tuple': ['tuple', [val]]}.get(w, val)
        q = [draw(st.sampled_from(['call', 'call', 'is_bearable', 'die'])), hint, value]
        hist = []
        for b in draw(st.lists(st.sampled_from(['define_late_bad', 'define_late', 'ask', 'ask']), min_size=2, max_size=6)):
            hist.append(q if b == 'ask' else [b])
        hist.append([draw(st.sampled_from(['define_late', 'define_late', 'define_late_bad']))])
        return {'history': hist, 'final': q, 'late_defined': False}
    if draw(st.integers(0, 7)) == 0:
        # door pair: the two door functions (and TypeHint's methods through them) asked about the same cacheable hint under the same
        # configuration and explicit exception_prefix, in both orders, with conforming and violating objects
        leafval = draw(st.sampled_from([(['int'], ['i', 1], ['s', 'a']), (['str'], ['s', 'a'], ['i', 1]),
                                        (['dyn', 'Dyn', 'v1'], ['inst', 'Dyn', 'v1'], ['i', 0])]))
        w = draw(st.sampled_from(['list', 'bare', 'dict', 'opt']))
        hint = {'bare': leafval[0], 'list': ['list', leafval[0]], 'dict': ['dict', leafval[0]], 'opt': ['opt', leafval[0]]}[w]

        def val(v):
            return {'list': ['list', [v]], 'dict': ['dictv', v]}.get(w, v)
        prefix = draw(st.sampled_from(['shared: ', 'other: ']))
        kinds = draw(st.sampled_from([['die', 'is_bearable'], ['is_bearable', 'die']]))
        hist = [[kinds[0], hint, val(draw(st.sampled_from([leafval[1], leafval[2]]))), prefix]]
        hist += draw(st.lists(st.sampled_from([['gc'], [kinds[0], hint, val(leafval[1]), prefix]]), max_size=2))
        return {'history': hist, 'final': [kinds[1], hint, val(draw(st.sampled_from([leafval[1], leafval[2]]))), prefix], 'late_defined': False}
    if draw(st.integers(0, 9)) == 0:
        # comparison across spellings: the comparison API asked about one class under the PEP 585 / 604 spelling and the typing
        # spelling of the same container, after the same question about a same-named other class (or its wrapper alone)
        va, vb = draw(st.permutations(['v1', 'v2', 'v3']))[:2]
        w = draw(st.sampled_from(['list', 'dict', 'pipe']))
        alt = {'list': 'List', 'dict': 'Dict', 'pipe': 'union'}[w]

        def pair(v, kind):
            leaf = ['dyn', 'Dyn', v]
            tail = [['str']] if w == 'pipe' else []
            sides = [[w, leaf] + tail, [alt, leaf] + tail]
            return [kind] + (sides if draw(st.booleans()) else sides[::-1])
        kind = draw(st.sampled_from(['is_subhint', 'typehint_eq']))
        hist = [pair(va, draw(st.sampled_from(['is_subhint', 'typehint_eq'])))] + draw(st.lists(st.sampled_from([['gc'], pair(va, kind)]), max_size=2))
        return {'history': hist, 'final': pair(vb, kind), 'late_defined': False}
    final = draw(st.one_of(queries(d), focused_query(), focused_query()))
    # never an empty history (the reference run is the empty one); lengths spread evenly instead of Hypothesis' small-size bias
    n = draw(st.sampled_from([1, 2, 3, 4, 6, 8, 10, 12] + ([16, 20, 25] if tier != 'quick' else [])))
    hist = []
    for _ in range(n):
        k = draw(st.integers(0, 9))
        if k <= 2:
            hist.append(draw(queries(d)))
        elif k <= 5:
            hist.append(related(final) if draw(st.booleans()) else final)
        elif k == 6:
            hist.append(['gc'])
        elif k == 7:
            # the forward-referenced name is bound to its class, or first to an object that is no hint at all (a placeholder
            # constant) - a later rebinding to the class must then be honoured by wrappers that already failed once
            hist.append([draw(st.sampled_from(['define_late', 'define_late', 'define_late_bad']))])
        elif k == 8:
            hist.append(['redefine', draw(st.sampled_from(['Dyn', 'Other'])), draw(st.sampled_from(['v1', 'v2', 'v3'])), draw(st.booleans())])
        else:
            hist.append(['clear_caches'])
    return {'history': hist, 'final': final, 'late_defined': draw(st.booleans())}


def _monotone(case):
    """The forward-referenced name goes unbound -> placeholder -> class, never back: a wrapper that has resolved its reference
    to the class legitimately keeps that resolution (like a wrapper built for an earlier generation of a redefined class), so a
    later rebinding to a placeholder is outside what 'the same query in a fresh process' can judge."""
    good = False
    hist = []
    # (a PEP 695 alias caches its value itself - in CPython, not in beartype - once it evaluates without error, which it does
    # for a placeholder binding too: histories around the alias only go unbound -> class)
    no_bad = 'alias695' in json.dumps(case)
    for op in case['history']:
        if no_bad and op[0] == 'define_late_bad':
            continue
        if op[0] == 'define_late':
            good = True
        elif op[0] == 'define_late_bad' and good:
            op = ['define_late']
        hist.append(op)
    return dict(case, history=hist)


def strategy(tier):
    return _case(tier).map(_monotone)


# ------------------------------------------------------------------ interpreter (runs inside the forked child)
class World:
    def __init__(self):
        self.classes = {}
        self.mod = types.ModuleType('c14mod')
        sys.modules['c14mod'] = self.mod
        self.funcs = {}
        self.keepalive = []
        self.created = {}      # name -> list of booleans: was the i-th class object of that name @beartype-decorated

    def cls(self, name, variant, decorated=False):
        key = (name, variant)
        if key not in self.classes:
            bases = (self.cls(name, 'v1'),) if variant == 'v3' else ()
            ns = {'__module__': 'c14mod', '__qualname__': name, 'variant': variant}
            c = type(name, bases, ns)
            self.created.setdefault(name, []).append(bool(decorated))
            if decorated:
                from beartype import beartype
                c = beartype(c)
            self.classes[key] = c
        return self.classes[key]

    def hint(self, h):
        import typing
        k = h[0]
        if k == 'int':
            return int
        if k == 'str':
            return str
        if k == 'float':
            return float
        if k == 'dyn':
            return self.cls(h[1], h[2])
        if k == 'lit':
            return typing.Literal[h[1]]
        if k == 'fwd':
            return 'c14mod.' + h[1]
        if k == 'alias695':
            if 'AL' not in self.mod.__dict__:
                exec('type AL = list[Late] | None', self.mod.__dict__)
            return self.mod.AL
        if k == 'list':
            return list[self.hint(h[1])]
        if k == 'List':
            return typing.List[self.hint(h[1])]
        if k == 'opt':
            return typing.Optional[self.hint(h[1])]
        if k == 'tuple':
            return tuple[self.hint(h[1]), ...]
        if k == 'dict':
            return dict[str, self.hint(h[1])]
        if k == 'Dict':
            return typing.Dict[str, self.hint(h[1])]
        if k == 'set':
            return set[self.hint(h[1])]
        if k == 'type':
            inner = self.hint(h[1])
            return type[inner]
        if k == 'union':
            return typing.Union[self.hint(h[1]), self.hint(h[2])]
        if k == 'pipe':
            a, b = self.hint(h[1]), self.hint(h[2])
            try:
                return a | b
            except TypeError:
                return typing.Union[a, b]
        if k == 'ann_unhashable':
            return typing.Annotated[self.hint(h[1]), []]
        if k == 'ann_meta':
            return typing.Annotated[self.hint(h[1]), h[2]]
        raise ValueError(h)

    def value(self, v):
        k = v[0]
        if k in ('i', 'b', 's', 'f'):
            return v[1]
        if k == 'n':
            return None
        if k == 'inst':
            return self.cls(v[1], v[2])()
        if k == 'list':
            return [self.value(x) for x in v[1]]
        if k == 'tuple':
            return tuple(self.value(x) for x in v[1])
        if k == 'dictv':
            return {'k': self.value(v[1])}
        if k == 'setv':
            x = self.value(v[1])
            try:
                return {x}
            except TypeError:
                return set()
        if k == 'cls':
            h = self.hint(v[1])
            return h if isinstance(h, type) else int
        raise ValueError(v)

    def run(self, op):
        from beartype import beartype
        from beartype.door import TypeHint, die_if_unbearable, is_bearable, is_subhint
        k = op[0]
        try:
            with warnings.catch_warnings():
                warnings.simplefilter('ignore')
                if k == 'gc':
                    self.keepalive = []
                    gc.collect()
                    self.keepalive = [object() for _ in range(50)] + [list[int], dict[str, int]]
                    return ['done']
                if k == 'define_late':
                    self.mod.Late = self.cls('Late', 'v1')
                    return ['done']
                if k == 'define_late_bad':
                    self.mod.Late = 0xC14
                    return ['done']
                if k == 'redefine':
                    self.classes.pop((op[1], op[2]), None)
                    self.cls(op[1], op[2], decorated=op[3])
                    return ['done']
                if k == 'clear_caches':
                    from beartype._util.cache.utilcacheclear import clear_caches
                    clear_caches()
                    return ['done']
                kw = {'exception_prefix': op[3]} if len(op) > 3 and isinstance(op[3], str) else {}
                if k == 'is_bearable':
                    return ['bool', is_bearable(self.value(op[2]), self.hint(op[1]), **kw)]
                if k == 'die':
                    die_if_unbearable(self.value(op[2]), self.hint(op[1]), **kw)
                    return ['ok']
                if k == 'is_subhint':
                    return ['bool', is_subhint(self.hint(op[1]), self.hint(op[2]))]
                if k == 'typehint_eq':
                    a, b = TypeHint(self.hint(op[1])), TypeHint(self.hint(op[2]))
                    return ['bool', a == b, 'samehash' if hash(a) == hash(b) else 'diffhash'] if False else ['bool', a == b]
                if k == 'selfcall':
                    name, shape, val = op[1], op[2], op[3]
                    key = ('selfcls', name, shape)
                    c = self.funcs.get(key)
                    if c is None:
                        ns = {'beartype': beartype, '__name__': 'c14mod'}
                        exec('import typing\nfrom typing import Self\n@beartype\nclass %s:\n    def m(self, p: %s):\n        return p\n' % (name, shape), ns)
                        c = self.funcs[key] = ns[name]
                        setattr(self.mod, '%s_%d' % (name, SELF_SHAPES.index(shape)), c)
                    other_name = 'SB' if name == 'SA' else 'SA'
                    if val == 'other' and ('selfcls', other_name, shape) not in self.funcs:
                        # the other class of the pair (undecorated stand-in if it does not exist yet: any foreign class will do)
                        other = type(other_name, (), {'__module__': 'c14mod'})
                    else:
                        other = self.funcs.get(('selfcls', other_name, shape))
                    pick = {'own': c, 'other': other, 'int': int}[val]
                    if shape.startswith('type['):
                        arg = pick
                    else:
                        inst = 3 if val == 'int' else pick()
                        arg = {'list[Self]': [inst], 'tuple[Self, ...]': (inst,), 'dict[str, Self]': {'k': inst}}.get(shape, inst)
                    c().m(arg)
                    return ['ok']
                if k == 'call':
                    # one wrapper per (hint, generation of the classes it names): a wrapper built for an earlier generation
                    # of a redefined class legitimately keeps checking against that generation
                    key = (repr(op[1]), tuple(sorted((n, v, id(self.cls(n, v))) for n, v in _dyn_variants(op[1]))))
                    f = self.funcs.get(key)
                    if f is None:
                        def g(p):
                            return p
                        g.__annotations__ = {'p': self.hint(op[1]), 'return': self.hint(op[1])}
                        g.__module__ = 'c14mod'
                        f = self.funcs[key] = beartype(g)
                    f(self.value(op[2]))
                    return ['ok']
        except Exception as e:
            return ['raised', type(e).__name__]
        raise ValueError(op)


def _child(case):
    from vlib import sampler
    sampler.set_draw(0)      # which item of a multi-item container is inspected must not depend on chance (nor on the history)
    w = World()
    if case.get('late_defined') and not case['history']:
        pass
    answers = []
    for op in case['history']:
        answers.append(w.run(op))
    if case.get('define_before_final'):
        w.run(['define_late'])
    a1 = w.run(case['final'])
    a2 = w.run(case['final'])
    return {'answers': answers, 'final': a1, 'again': a2, 'created': w.created}


def _mentions(h, pred):
    if isinstance(h, list):
        if h and pred(h):
            return True
        return any(_mentions(x, pred) for x in h[1:] if isinstance(x, list))
    return False


def _dyn_variants(op):
    out = set()

    def walk(x):
        if isinstance(x, list):
            if x and x[0] in ('dyn', 'inst') and len(x) == 3:
                out.add((x[1], x[2]))
            for y in x:
                walk(y)
    walk(op)
    return out


def run_case(case):
    final = case['final']
    late_ops = [op for op in case['history'] if op[0] in ('define_late', 'define_late_bad')]
    late_in_hist = bool(late_ops)
    a = isolate.call(_child, dict(case, define_before_final=False), timeout=60)
    if isinstance(a, dict) and a.get('timeout'):
        return {'fails': [{'sig': 'timeout', 'detail': repr(case)}], 'nontrivial': True}
    # the reference defines Late iff the history did (the query's arguments include the state of user modules)
    if not case['history']:
        b = a
    else:
        ref_hist = [late_ops[-1]] if late_in_hist else []     # the binding in force when the final query is asked
        if case.get('chain'):
            ref_hist = [['redefine', 'Hot', 'v1', True]]
        b = isolate.call(_child, {'history': ref_hist, 'final': final}, timeout=60)
    fails = []
    def hint_part(op):
        if op[0] in ('is_subhint', 'typehint_eq'):
            return [op[1], op[2]]
        return [op[1]] if len(op) > 1 and isinstance(op[1], list) else []
    names_final = _dyn_variants(hint_part(final))
    names_hist = set()
    for op in case['history']:
        names_hist |= _dyn_variants(hint_part(op))
    same_name_other_variant = any((n, v) not in names_final and any(n == n2 for n2, _v in names_final) for n, v in names_hist)
    redefined = any(op[0] == 'redefine' and any(op[1] == n for n, _v in names_final) for op in case['history'])
    if a['final'] != b['final']:
        # the listed known finding (repr-keyed coercion cache) concerns same-named classes beartype never saw being redefined;
        # when every class object of the names involved was @beartype-decorated, beartype detects the redefinition and clears
        # its caches, so a history dependence there is NOT the known finding
        involved = {n for n, _v in names_final}
        all_decorated = bool(involved) and all(a.get('created', {}).get(n) and all(a['created'][n]) for n in involved)
        lab = ('decorated-class-redefinition' if (same_name_other_variant or redefined) and names_final and all_decorated else
               'same-named-class' if (same_name_other_variant or redefined) and names_final else
               'forward-ref' if _mentions(final, lambda h: h[0] == 'fwd') else final[0])
        if lab == 'same-named-class':
            # the known finding lives in the coercion cache of the checking entry points; the comparison API is named apart
            lab += ':' + ('door-comparison' if final[0] in ('is_subhint', 'typehint_eq') else 'check')
        fails.append({'sig': 'history-dependent:%s' % lab,
                      'detail': 'final=%r fresh process -> %r; after history %r -> %r' % (final, b['final'], case['history'], a['final'])})
    if a['final'] != a['again']:
        fails.append({'sig': 'not-idempotent:%s' % final[0], 'detail': 'final=%r first -> %r second -> %r (history %r)' % (
            final, a['final'], a['again'], case['history'])})
    fin_repr = repr(final[1])
    nontriv = (same_name_other_variant or redefined or late_in_hist or any(op[0] in ('gc', 'clear_caches') for op in case['history']) or
               any(len(op) > 1 and repr(op[1]) == fin_repr for op in case['history']))
    classes = ['q:' + final[0], 'hist%d' % min(len(case['history']) // 4 * 4, 24), 'final:' + a['final'][0]]
    if same_name_other_variant or redefined:
        classes.append('same-named-class')
    return {'fails': fails, 'nontrivial': bool(nontriv), 'classes': classes, 'evals': len(case['history']) + 3}
