"""C12 - validator algebra: generated code, is_valid and boolean meaning coincide."""
import re
from typing import Annotated

from hypothesis import strategies as st

from beartype import beartype
from beartype.door import die_if_unbearable, is_bearable
from beartype.roar import BeartypeCallHintParamViolation, BeartypeDoorHintViolation
from beartype.vale import Is, IsAttr, IsEqual, IsInstance, IsSubclass

from vlib import hints as H

PID = 'C12'
LEVEL = 'exploration'
BUDGET = {'quick': 6000, 'thorough': 300000}
CAP_S = {'quick': 150, 'thorough': 3000}
# thorough tier only: 300 s x 8 coverage-guided libFuzzer campaigns over the same strategy and oracle (vlib/fuzz_driver.py)
FUZZ = {'thorough': (300, 8)}
RULE = ('case = (base hint T, 1-3 validator expression trees over Is/IsAttr/IsEqual/IsInstance/IsSubclass with & | ~ up to depth 5 '
        '(8 thorough), object: scalars, classes, attribute bags nested to the depth of the expression with attribute names chosen to '
        'collide after mangling, objects lacking attributes). Oracle: my own evaluator of the boolean meaning; asserted equal to it: '
        'V.is_valid(x), is_bearable(x, Annotated[T, V...]), raise/no-raise of die_if_unbearable and of a decorated call, the verdict '
        'printed by get_diagnosis for each V and the verdict of the diagnosis block in the violation message. '
        'non-trivial = some expression has >= 3 operators or an IsAttr chain >= 2; distinct by canonical JSON')
ASSUMPTIONS = [
    'predicates passed to Is[...] are named, total functions of the harness (lambdas only trigger a source-lookup warning)',
    'IsEqual means x == c, IsInstance isinstance, IsSubclass "is a class and issubclass", IsAttr "attribute exists and value satisfies"',
]


def p_pos_int(x):
    return isinstance(x, int) and not isinstance(x, bool) and x > 0


def p_is_str(x):
    return isinstance(x, str)


def p_truthy(x):
    try:
        return bool(x)
    except Exception:
        return False


def p_sized2(x):
    try:
        return len(x) == 2
    except Exception:
        return False


def p_always(x):
    return True


def p_never(x):
    return False


PREDS = {f.__name__: f for f in (p_pos_int, p_is_str, p_truthy, p_sized2, p_always, p_never)}
TYPES = ['int', 'str', 'bool', 'float', 'VBase', 'VDerived', 'VOther']
ATTRS = ['a', 'b', 'a_isattr_b', 'isattr', 'a_b']
CONSTS = [['i', 0], ['i', 1], ['i', 3], ['s', 'a'], ['s', ''], ['n'], ['b', True], ['b', False], ['f', 1.0],
          # singletons that are not equal to themselves: the same object serves as IsEqual operand and as checked object, so an
          # identity shortcut in place of == shows
          ['nan'], ['neq']]


class NeverEqual:
    def __eq__(self, other):
        return False

    def __ne__(self, other):
        return True

    def __hash__(self):
        return 11

    def __repr__(self):
        return 'NEVER_EQ'


import abc as _abc
import enum as _enum


class VBaseAbc(H.VBase, metaclass=_abc.ABCMeta):
    """A subclass of VBase whose metaclass is not ``type``."""


class VIntEnum(_enum.IntEnum):
    ONE = 1


class _Meta(type):
    pass


class VStrMeta(str, metaclass=_Meta):
    pass


# classes whose metaclass is ABCMeta / EnumMeta / a user metaclass: they are classes for IsSubclass like any other
XCLASSES = {'VBaseAbc': VBaseAbc, 'VIntEnum': VIntEnum, 'VStrMeta': VStrMeta, 'Sequence': __import__('collections.abc').abc.Sequence}
NAN = float('nan')
NEVER_EQ = NeverEqual()


class Bag:
    def __init__(self, pairs):
        for k, v in pairs:
            setattr(self, k, v)

    def __repr__(self):
        return 'Bag(%s)' % ', '.join('%s=%r' % kv for kv in sorted(self.__dict__.items()))

    def __hash__(self):
        return 7


def const(c):
    if c[0] == 'f':
        return float(c[1])
    if c[0] == 'nan':
        return NAN
    if c[0] == 'neq':
        return NEVER_EQ
    return H.lit_value(c)


def realize(v):
    if v[0] == 'bag':
        return Bag([(k, realize(x)) for k, x in v[1]])
    if v[0] == 'xclass':
        return XCLASSES[v[1]]
    if v[0] == 'nan':
        return NAN
    if v[0] == 'neq':
        return NEVER_EQ
    if v[0] == 'nan2':
        return float('nan')
    return H.realize(v)


_VCACHE = {}


def build(e):
    key = repr(e)
    v = _VCACHE.get(key)
    if v is None:
        k = e[0]
        if k == 'is':
            v = Is[PREDS[e[1]]]
        elif k == 'attr':
            v = IsAttr[e[1], build(e[2])]
        elif k == 'eq':
            v = IsEqual[const(e[1])]
        elif k == 'inst':
            v = IsInstance[tuple(H.CLASSES[c] for c in e[1])] if len(e[1]) > 1 else IsInstance[H.CLASSES[e[1][0]]]
        elif k == 'sub':
            v = IsSubclass[tuple(H.CLASSES[c] for c in e[1])] if len(e[1]) > 1 else IsSubclass[H.CLASSES[e[1][0]]]
        elif k == 'and':
            v = build(e[1]) & build(e[2])
        elif k == 'or':
            v = build(e[1]) | build(e[2])
        elif k == 'not':
            v = ~build(e[1])
        elif k == 'guard':
            # guard-style leaf: the right operand is a partial predicate (raises for what the left operand lets through)
            v = (~IsInstance[int] | Is[H.vpred_partial_positive]) if e[1] == 'int' else \
                (~IsInstance[list] | Is[H.vpred_is_empty] | Is[H.vpred_partial_first_truthy])
        else:
            raise ValueError(e)
        if len(_VCACHE) > 20000:
            _VCACHE.clear()
        _VCACHE[key] = v
    return v


_MISSING = object()


def meaning(e, x):
    k = e[0]
    if k == 'is':
        return PREDS[e[1]](x)
    if k == 'attr':
        v = getattr(x, e[1], _MISSING)
        return v is not _MISSING and meaning(e[2], v)
    if k == 'eq':
        return bool(x == const(e[1]))
    if k == 'inst':
        return isinstance(x, tuple(H.CLASSES[c] for c in e[1]))
    if k == 'sub':
        return isinstance(x, type) and issubclass(x, tuple(H.CLASSES[c] for c in e[1]))
    if k == 'and':
        return meaning(e[1], x) and meaning(e[2], x)
    if k == 'or':
        return meaning(e[1], x) or meaning(e[2], x)
    if k == 'not':
        return not meaning(e[1], x)
    if k == 'guard':
        if e[1] == 'int':
            return (not isinstance(x, int)) or x > 0
        return (not isinstance(x, list)) or len(x) == 0 or bool(x[0])
    raise ValueError(e)


def n_ops(e):
    k = e[0]
    if k in ('and', 'or'):
        return 1 + n_ops(e[1]) + n_ops(e[2])
    if k == 'not':
        return 1 + n_ops(e[1])
    if k == 'attr':
        return n_ops(e[2])
    return 0


def attr_chain(e):
    k = e[0]
    if k == 'attr':
        return 1 + attr_chain(e[2])
    if k in ('and', 'or'):
        return max(attr_chain(e[1]), attr_chain(e[2]))
    if k == 'not':
        return attr_chain(e[1])
    return 0


def exprs(depth, names=None):
    names = names or ATTRS
    leaf = st.one_of(
        st.sampled_from(sorted(PREDS)).map(lambda p: ['is', p]),
        st.sampled_from(CONSTS).map(lambda c: ['eq', c]),
        st.lists(st.sampled_from(TYPES), min_size=1, max_size=2, unique=True).map(lambda t: ['inst', t]),
        st.lists(st.sampled_from(TYPES), min_size=1, max_size=2, unique=True).map(lambda t: ['sub', t]),
        st.sampled_from(['int', 'list']).map(lambda g: ['guard', g]),
    )
    if depth <= 0:
        return leaf
    sub = st.deferred(lambda: exprs(depth - 1, names))
    comp = st.one_of(
        st.tuples(sub, sub).map(lambda t: ['and', t[0], t[1]]),
        st.tuples(sub, sub).map(lambda t: ['or', t[0], t[1]]),
        sub.map(lambda s: ['not', s]),
        st.tuples(st.sampled_from(names), sub).map(lambda t: ['attr', t[0], t[1]]),
        st.tuples(st.sampled_from(names), sub).map(lambda t: ['attr', t[0], t[1]]),
        # same attribute name re-entered below an operator whose other operand reads the outer attribute value
        st.tuples(st.sampled_from(names), st.sampled_from(['and', 'or']), sub, sub, st.booleans()).map(
            lambda t: ['attr', t[0], [t[1], ['attr', t[0], t[2]], t[3]] if t[4] else [t[1], t[3], ['attr', t[0], t[2]]]]),
    )
    return st.integers(0, 3).flatmap(lambda i: leaf if i == 0 else comp)


def objects(depth):
    scalar = st.one_of(
        st.sampled_from(CONSTS),
        st.sampled_from([['i', 2], ['i', -1], ['s', 'ab'], ['tuple', [['i', 1], ['i', 2]]], ['list', []],
                         ['obj', 'VBase'], ['obj', 'VDerived'], ['obj', 'VOther'], ['class', 'int'], ['class', 'bool'],
                         ['class', 'VDerived'], ['class', 'str'], ['func'], ['xclass', 'VBaseAbc'], ['xclass', 'VIntEnum'],
                         ['xclass', 'VStrMeta']]))
    if depth <= 0:
        return scalar
    sub = st.deferred(lambda: objects(depth - 1))
    bag = st.lists(st.tuples(st.sampled_from(ATTRS), sub), max_size=4, unique_by=lambda t: t[0]).map(
        lambda l: ['bag', [list(t) for t in l]])
    return st.one_of(scalar, bag, bag)


@st.composite
def obj_for(draw, e, depth=0):
    """Object shaped after the expression (so that IsAttr chains are reached and both verdicts occur)."""
    k = e[0]
    if depth > 6 or draw(st.integers(0, 5)) == 0:
        return draw(objects(1))
    if k == 'attr':
        pairs = [[e[1], draw(obj_for(e[2], depth + 1))]]
        for name in draw(st.lists(st.sampled_from(ATTRS), max_size=2, unique=True)):
            if name != e[1]:
                pairs.append([name, draw(objects(0))])
        if draw(st.integers(0, 6)) == 0:
            pairs = pairs[1:]          # attribute missing
        return ['bag', pairs]
    if k == 'eq':
        return e[1] if e[1][0] != 'f' else ['f', e[1][1]]
    if k == 'inst':
        c = draw(st.sampled_from(e[1]))
        return {'int': ['i', 5], 'str': ['s', 'q'], 'bool': ['b', True], 'float': ['f', 2.5]}.get(c, ['obj', c])
    if k == 'sub':
        return draw(st.sampled_from([['xclass', n] for n in sorted(XCLASSES)] + [['class', c] for c in e[1]]))
    if k == 'guard':
        # objects on both sides of the guard: the partial operand must only ever see what it can digest
        return draw(st.sampled_from([['i', 4], ['i', 0], ['i', -1], ['s', 'zz'], ['n'], ['list', []], ['list', [['i', 0]]],
                                     ['list', [['i', 2]]], ['tuple', [['i', 1], ['i', 2]]]]))
    if k == 'is':
        return draw(st.sampled_from([['i', 4], ['s', 'zz'], ['tuple', [['i', 1], ['i', 2]]], ['i', 0], ['n']]))
    if k in ('and', 'or'):
        return draw(obj_for(e[draw(st.integers(1, 2))], depth + 1))
    return draw(obj_for(e[1], depth + 1))


BASES = [['any', 'object'], ['any', 'object'], ['any', 'Any'], ['cls', 'int'], ['cls', 'str'], ['cls', 'VBase'],
         ['union', [['cls', 'int'], ['cls', 'str']], 'U'], ['union', [['cls', 'int']], 'O']]


@st.composite
def _case(draw, tier):
    d = draw(st.sampled_from([1, 2, 3, 3, 4, 5] + ([6, 8] if tier == 'thorough' else [])))
    # attribute names are drawn from a small per-case subset so that the same name recurs along and across
    # IsAttr chains (local-variable collisions in the generated code need equal names at different depths)
    names = draw(st.lists(st.sampled_from(ATTRS), min_size=1, max_size=draw(st.sampled_from([1, 1, 2, 5])), unique=True))
    vs = draw(st.lists(exprs(d, names), min_size=1, max_size=3))
    if draw(st.booleans()):
        obj = draw(obj_for(draw(st.sampled_from(vs))))
    else:
        obj = draw(objects(min(d, 4)))
    return {'base': draw(st.sampled_from(BASES)), 'validators': vs, 'object': obj}


def strategy(tier):
    return _case(tier)


_VERDICT = re.compile(r'^\s*(~\s*)?(True|False)\s*==')


def _diag_verdict(text):
    for line in text.splitlines():
        m = _VERDICT.match(line)
        if m:
            return m.group(2) == 'True'
    return None


def run_case(case):
    base, vs, vast = case['base'], case['validators'], case['object']
    x = realize(vast)
    fails, seen, evals = [], set(), 0

    def fail(sig, detail):
        if sig not in seen:
            seen.add(sig)
            fails.append({'sig': sig, 'detail': 'T=%s validators=%r obj=%r: %s' % (H.describe(base), vs, x, detail)})

    try:
        built = [build(e) for e in vs]
    except Exception as e:
        fail('build-error:%s' % type(e).__name__, repr(e))
        return {'fails': fails, 'nontrivial': False, 'classes': ['build-error'], 'evals': 1}
    means = [meaning(e, x) for e in vs]
    for e, v, m in zip(vs, built, means):
        evals += 1
        try:
            got = v.is_valid(x)
        except Exception as ex:
            fail('is_valid-raised:%s' % type(ex).__name__, '%r: %r' % (e, ex))
            continue
        if bool(got) != m:
            fail('is_valid-differs:%s' % e[0], 'expr=%r is_valid=%r meaning=%r' % (e, got, m))
        try:
            diag = v.get_diagnosis(obj=x, indent_level_outer='', indent_level_inner='    ')
            dv = _diag_verdict(diag)
            if dv is not None and dv != m:
                fail('diagnosis-differs:%s' % e[0], 'expr=%r diagnosis says %r, meaning %r: %s' % (e, dv, m, diag[:300]))
        except Exception as ex:
            fail('diagnosis-raised:%s' % type(ex).__name__, '%r: %r' % (e, ex))
    base_ok = H.conforms(base, x) if not (vast[0] == 'bag' and base[0] != 'any') else False
    if vast[0] == 'bag':
        base_ok = base[0] == 'any'
    want = base_ok and all(means)
    hint = Annotated[(H.build(base),) + tuple(built)]
    evals += 3
    try:
        got = is_bearable(x, hint)
    except Exception as ex:
        got = ex
    if got is not want:
        fail('is_bearable-differs', 'is_bearable=%r expected %r (base %r, validators %r)' % (got, want, base_ok, means))
    msg = None
    try:
        die_if_unbearable(x, hint)
        raised = False
    except BeartypeDoorHintViolation as ex:
        raised, msg = True, str(ex)
    except Exception as ex:
        raised = ex
    if raised is not (not want):
        fail('die_if_unbearable-differs', 'raised=%r expected %r' % (raised, not want))

    def f(p):
        return None
    f.__annotations__ = {'p': hint}
    try:
        beartype(f)(x)
        raised2 = False
    except BeartypeCallHintParamViolation:
        raised2 = True
    except Exception as ex:
        raised2 = ex
    if raised2 is not (not want):
        fail('decorated-call-differs', 'raised=%r expected %r' % (raised2, not want))
    if msg is not None and base_ok and 'violates validator' in msg:
        tail = msg.split('violates validator', 1)[1]
        dv = _diag_verdict(tail)
        if dv is not False:
            fail('message-diagnosis-not-false', 'the diagnosis in the violation message does not report False: %s' % tail[:300])
        # the named validator is the first failing one
        first = next(i for i, m in enumerate(means) if not m)
        if repr(built[first]) not in tail:
            fail('message-names-other-validator', 'first failing validator %r not named in: %s' % (vs[first], tail[:300]))
    nontriv = any(n_ops(e) >= 3 or attr_chain(e) >= 2 for e in vs)
    classes = ['accept' if want else 'reject', 'nvalidators:%d' % len(vs), 'obj:' + vast[0],
               'maxops:%d' % min(max(n_ops(e) for e in vs), 6), 'attrchain:%d' % max(attr_chain(e) for e in vs)]
    return {'fails': fails, 'nontrivial': nontriv, 'classes': classes, 'evals': evals}
