"""C08 - wrapped coroutines and generators are indistinguishable from the originals.

Bodies are generated from a statement grammar and rendered as ``def`` generator, ``async def``
generator or coroutine; the decorated and the undecorated function are driven by the same sequence
of protocol operations with a hand-rolled stepper (no event loop) and their traces compared."""
import inspect
import warnings

from hypothesis import strategies as st

from beartype import beartype
from beartype.roar import BeartypeCallHintReturnViolation

PID = 'C08'
LEVEL = 'exploration'
BUDGET = {'quick': 8000, 'thorough': 300000}
CAP_S = {'quick': 150, 'thorough': 3000}
RULE = ('case = (kind in {generator, async generator, coroutine}, decorated as a plain function or (one case in four) as a bound method of an instance; body from a statement grammar: yield constant, x = yield v recording '
        'what was sent, nested try/except E/finally whose handlers yield, return, re-raise, raise another exception or swallow, return v, '
        'raise, bounded loops, awaiting a custom awaitable that suspends once; return annotation present (checked wrapper) or absent; '
        'operation sequence of length <= 8 over next/send(v)/throw(E)/close resp. anext/asend/athrow/aclose with E in {ValueError, KeyError, '
        'StopIteration, StopAsyncIteration, GeneratorExit, a BaseException subclass}). Oracle: the undecorated function - identical trace of '
        '(yielded | returned | exception class + args, identity for thrown instances) per operation, identical finalisation log, identical '
        'inspect classification; a coroutine returning a value violating its annotation must raise the return violation. '
        'non-trivial = the sequence contains a throw/close after at least one yield, or a send of a non-None value; '
        'bodies whose undecorated run reports "ignored GeneratorExit" are excluded and counted; distinct by canonical JSON')
ASSUMPTIONS = [
    'interpreter-synthesised RuntimeErrors are compared by class and message, user exceptions by class and args, thrown instances by identity',
    'garbage-collection finalisation of un-closed async generators is not driven (needs an event loop hook)',
]

EXCS = ['ValueError', 'KeyError', 'StopIteration', 'StopAsyncIteration', 'GeneratorExit', 'MyBase']


class MyBase(BaseException):
    pass


class Suspend:
    """Awaitable that suspends exactly once."""

    def __await__(self):
        LOG.append('suspend')
        got = yield 'SUSPENDED'
        LOG.append(('resumed', got))
        return 5


LOG = []
ENV = {'MyBase': MyBase, 'Suspend': Suspend, 'LOG': LOG}


# ------------------------------------------------------------------ body grammar
def stmts(depth, kind):
    yield_ = st.integers(0, 3).map(lambda c: ['yield', c])
    recv = st.integers(0, 3).map(lambda c: ['recv', c])
    simple = [st.sampled_from(['a', 'b']).map(lambda t: ['log', t]),
              st.sampled_from(EXCS).map(lambda e: ['raise', e])]
    if kind != 'coro':
        simple += [yield_, yield_, recv, recv]
    if kind == 'gen':
        simple.append(st.integers(0, 2).map(lambda c: ['return', c]))
    else:
        simple.append(st.just(['return', None]) if kind == 'agen' else st.integers(0, 2).map(lambda c: ['return', c]))
        simple.append(st.just(['await']))
        simple.append(st.just(['await']))
    simple = st.one_of(simple)
    if depth <= 0:
        return st.lists(simple, min_size=1, max_size=3)
    sub = st.deferred(lambda: stmts(depth - 1, kind))
    handler_action = st.sampled_from(['yield', 'return', 'reraise', 'raise-other', 'swallow'] if kind != 'coro'
                                     else ['return', 'reraise', 'raise-other', 'swallow', 'await'])
    handlers = st.lists(st.tuples(st.sampled_from(EXCS + ['BaseException', 'Exception']), handler_action).map(list),
                        max_size=2, unique_by=lambda h: h[0])
    try_ = st.tuples(sub, handlers, st.one_of(st.none(), sub)).map(lambda t: ['try', t[0], t[1], t[2]])
    loop = st.tuples(st.integers(1, 3), sub).map(lambda t: ['loop', t[0], t[1]])
    return st.lists(st.one_of(simple, simple, try_, try_, loop), min_size=1, max_size=3)


def render(body, kind, ind=1):
    pad = '    ' * ind
    out = []
    for s in body:
        k = s[0]
        if k == 'yield':
            out.append('%syield %d' % (pad, s[1]))
        elif k == 'recv':
            out.append('%s_x = yield %d' % (pad, 10 + s[1]))
            out.append('%sLOG.append(("recv", _x))' % pad)
        elif k == 'log':
            out.append('%sLOG.append(%r)' % (pad, s[1]))
        elif k == 'raise':
            out.append('%sraise %s(%r)' % (pad, s[1], 'from-body'))
        elif k == 'return':
            out.append('%sreturn%s' % (pad, '' if s[1] is None else ' %d' % (100 + s[1])))
        elif k == 'await':
            out.append('%sLOG.append(("awaited", await Suspend()))' % pad)
        elif k == 'loop':
            out.append('%sfor _i in range(%d):' % (pad, s[1]))
            out += render(s[2], kind, ind + 1)
        elif k == 'try':
            out.append('%stry:' % pad)
            out += render(s[1], kind, ind + 1)
            if not s[2] and s[3] is None:
                out.append('%sfinally:' % pad)
                out.append('%s    LOG.append("finally")' % pad)
            for exc, action in s[2]:
                out.append('%sexcept %s as _e:' % (pad, exc))
                out.append('%s    LOG.append(("caught", type(_e).__name__))' % pad)
                if action == 'yield':
                    out.append('%s    yield 50' % pad)
                elif action == 'return':
                    out.append('%s    return%s' % (pad, '' if kind == 'agen' else ' 150'))
                elif action == 'reraise':
                    out.append('%s    raise' % pad)
                elif action == 'raise-other':
                    out.append('%s    raise KeyError("from-handler")' % pad)
                elif action == 'await':
                    out.append('%s    LOG.append(("awaited-in-handler", await Suspend()))' % pad)
                else:
                    out.append('%s    pass' % pad)
            if s[3] is not None:
                out.append('%sfinally:' % pad)
                out.append('%s    LOG.append("finally")' % pad)
                out += render(s[3], kind, ind + 1)
        else:
            raise ValueError(s)
    return out


def make(case, decorated):
    kind = case['kind']
    # 'wraps': the generated callable is a (*args, **kwargs) pass-through carrying __wrapped__ = a callable of another kind
    # (what functools.wraps leaves behind, e.g. an async adapter around a synchronous function): its own kind decides
    carrier = case.get('carrier') if not case.get('wraps') else None
    params = '(*args, **kwargs)' if case.get('wraps') else '(self)' if carrier else '()'
    head = {'gen': 'def f' + params, 'agen': 'async def f' + params, 'coro': 'async def f' + params}[kind]
    ann = case['ann']
    ns = dict(ENV)
    import collections.abc as cabc
    import typing
    ns.update(cabc=cabc, typing=typing)
    annsrc = {'none': '', 'Generator': ' -> cabc.Generator[int, object, object]', 'Iterator': ' -> cabc.Iterator[int]',
              'Iterable': ' -> typing.Iterable[int]', 'AsyncGenerator': ' -> cabc.AsyncGenerator[int, object]',
              'AsyncIterator': ' -> cabc.AsyncIterator[int]', 'int': ' -> int', 'str': ' -> str',
              # every spelling of a coroutine's return hint, incl. "never returns" and the Coroutine[...] wrapper form
              'NoReturn': ' -> typing.NoReturn', 'Never': ' -> typing.Never', 'CoroInt': ' -> cabc.Coroutine[object, object, int]',
              'CoroNoReturn': ' -> cabc.Coroutine[object, object, typing.NoReturn]', 'OptInt': ' -> typing.Optional[int]',
              'Any': ' -> typing.Any', 'None': ' -> None'}[ann]
    lines = render(case['body'], kind)
    if kind != 'coro' and not any('yield' in l for l in lines):
        lines.append('    yield 9')
    src = '%s%s:\n    LOG.append("start")\n%s\n' % (head, annsrc, '\n'.join(lines))
    exec(compile(src, '<c08>', 'exec'), ns)
    f = ns['f']
    if case.get('wraps'):
        import functools
        bases = {}
        exec('def sync(): return 7\nasync def coro(): return 7\ndef gen():\n    yield 7\nasync def agen():\n    yield 7\n', bases)
        ann = f.__annotations__
        f = functools.wraps(bases[case['wraps']])(f)
        f.__annotations__ = ann          # the adapter keeps its own return annotation
        src = '# functools.wraps(<%s function>) applied to:\n%s' % (case['wraps'], src)
    if carrier:
        # the same function as a bound method (beartype(obj.f)) or as the __call__ of a callable object (beartype(obj))
        obj = type('Carrier', (), {'f' if carrier == 'bound' else '__call__': f})()
        f = obj.f if carrier == 'bound' else obj
        src = '# %s of an instance of a class whose %s is:\n%s' % (
            'bound method' if carrier == 'bound' else 'callable object', 'f' if carrier == 'bound' else '__call__', src)
    return (beartype(f) if decorated else f), src


# ------------------------------------------------------------------ driver
def _exc(name):
    return {'ValueError': ValueError, 'KeyError': KeyError, 'StopIteration': StopIteration,
            'StopAsyncIteration': StopAsyncIteration, 'GeneratorExit': GeneratorExit, 'MyBase': MyBase}[name]


def _drive_awaitable(aw):
    """Run an awaitable to completion without an event loop; suspension points are resumed with None."""
    it = aw.__await__()
    n = 0
    try:
        v = it.send(None)
        while True:
            n += 1
            if n > 50:
                raise RuntimeError('awaitable never completes')
            v = it.send('resume-%d' % n if False else None)
    except StopIteration as e:
        return e.value


def _describe(e, thrown):
    return ('raise', type(e).__name__, repr(e.args)[:80], 'same-instance' if thrown is not None and e is thrown else '')


def run_ops(fn, kind, ops):
    del LOG[:]
    trace = []
    ignored = False
    with warnings.catch_warnings():
        warnings.simplefilter('ignore')
        try:
            obj = fn()
        except Exception as e:
            # calling a generator / coroutine function runs none of its body: a raise here comes from the wrapper itself
            return [[['call'], ('raise', type(e).__name__, repr(e.args)[:80], '')]] + [[op, ('skipped',)] for op in ops], list(LOG), False
        for op in ops:
            k = op[0]
            thrown = None
            try:
                if kind == 'gen':
                    if k == 'next':
                        r = ('yield', next(obj))
                    elif k == 'send':
                        r = ('yield', obj.send(op[1]))
                    elif k == 'throw':
                        thrown = _exc(op[1])('thrown')
                        r = ('yield', obj.throw(thrown))
                    else:
                        r = ('closed', obj.close())
                elif kind == 'agen':
                    if k == 'next':
                        r = ('yield', _drive_awaitable(obj.__anext__()))
                    elif k == 'send':
                        r = ('yield', _drive_awaitable(obj.asend(op[1])))
                    elif k == 'throw':
                        thrown = _exc(op[1])('thrown')
                        r = ('yield', _drive_awaitable(obj.athrow(thrown)))
                    else:
                        r = ('closed', _drive_awaitable(obj.aclose()))
                else:
                    if k in ('next', 'send'):
                        r = ('suspended', obj.send(None if k == 'next' else None))
                    elif k == 'throw':
                        thrown = _exc(op[1])('thrown')
                        r = ('suspended', obj.throw(thrown))
                    else:
                        r = ('closed', obj.close())
            except StopIteration as e:
                r = ('return', e.value) if thrown is None or e is not thrown else _describe(e, thrown)
            except BaseException as e:
                r = _describe(e, thrown)
                if isinstance(e, RuntimeError) and 'ignored GeneratorExit' in str(e):
                    ignored = True
            if k == 'throw' and op[1] == 'GeneratorExit' and r[0] in ('yield', 'suspended'):
                ignored = True   # the body yields / suspends while handling GeneratorExit: outside the statement
            trace.append([k, r])
        try:
            if kind == 'coro':
                obj.close()
        except BaseException as e:
            if isinstance(e, RuntimeError) and 'ignored GeneratorExit' in str(e):
                ignored = True
    return trace, list(LOG), ignored


OPS = st.one_of(
    st.just(['next']), st.just(['next']),
    st.sampled_from([None, 7, 'v', 0, '', False, []]).map(lambda v: ['send', v]),
    st.sampled_from(EXCS).map(lambda e: ['throw', e]),
    st.just(['close']),
)


def handler_names(body, out=None):
    out = out if out is not None else []
    for s_ in body:
        if s_[0] == 'try':
            handler_names(s_[1], out)
            for exc, _a in s_[2]:
                if exc in EXCS and exc not in out:
                    out.append(exc)
            if s_[3]:
                handler_names(s_[3], out)
        elif s_[0] == 'loop':
            handler_names(s_[2], out)
    return out


@st.composite
def _case(draw, tier):
    kind = draw(st.sampled_from(['gen', 'gen', 'agen', 'agen', 'coro']))
    if draw(st.integers(0, 5)) == 0:
        # handler-focused case: the object is suspended inside a try block whose handler names exactly the exception that is then
        # thrown into it (every class of EXCS, BaseException-only ones first), with each handler action
        exc = draw(st.sampled_from(['MyBase', 'StopAsyncIteration', 'StopIteration', 'KeyError', 'ValueError']))
        action = draw(st.sampled_from(['yield', 'return', 'pass', 'reraise', 'raise-other'] if kind != 'coro' else
                                      ['await', 'return', 'pass', 'reraise', 'raise-other']))
        suspend = ['await'] if kind == 'coro' else draw(st.sampled_from([['yield', 1], ['recv', 0]]))
        fin = draw(st.sampled_from([None, None, [['log', 'a']]]))
        body = [['try', [suspend] + draw(st.lists(st.sampled_from([['log', 'b'], suspend]), max_size=1)), [[exc, action]], fin]] + \
            draw(st.lists(st.sampled_from([['log', 'a'], suspend]), max_size=2))
        ann = draw(st.sampled_from({'gen': ['Generator', 'none', 'Iterator'], 'agen': ['AsyncGenerator', 'none', 'AsyncIterator'],
                                    'coro': ['int', 'none', 'Any']}[kind]))
        ops = [['next'], ['throw', exc]] + draw(st.lists(OPS, max_size=3))
        return {'kind': kind, 'body': body, 'ann': ann, 'ops': ops, 'wraps': None, 'carrier': draw(st.sampled_from([None, None, 'bound']))}
    body = draw(stmts(draw(st.sampled_from([0, 1, 1, 2])), kind))
    ann = draw(st.sampled_from({'gen': ['none', 'Generator', 'Generator', 'Iterator', 'Iterable'],
                                'agen': ['none', 'AsyncGenerator', 'AsyncGenerator', 'AsyncIterator'],
                                'coro': ['none', 'int', 'int', 'str', 'NoReturn', 'Never', 'CoroInt', 'CoroNoReturn', 'OptInt', 'Any',
                                         'None']}[kind]))
    caught = handler_names(body)
    # exceptions the body has handlers for are thrown preferentially (a thrown exception nobody catches only ends the object)
    ops_s = OPS if not caught else st.one_of(OPS, OPS, st.sampled_from(caught).map(lambda e: ['throw', e]))
    ops = draw(st.lists(ops_s, min_size=1, max_size=8))
    wraps = draw(st.sampled_from([None, None, None, 'sync', 'coro', 'gen', 'agen']))
    carrier = draw(st.sampled_from([None, None, None, 'bound'])) if wraps is None else None
    return {'kind': kind, 'body': body, 'ann': ann, 'ops': ops, 'wraps': wraps, 'carrier': carrier}


def strategy(tier):
    return _case(tier)


def _returns_int(body):
    """The coroutine body can return a value (100..102 / 150) -> violates '-> str'."""
    return True


def run_case(case):
    kind = case['kind']
    fails = []
    try:
        plain, src = make(case, False)
    except SyntaxError as e:
        return {'fails': [], 'nontrivial': False, 'classes': ['discarded:syntax'], 'evals': 0, 'extra': {'discarded_syntax': 1}}
    try:
        deco, _ = make(case, True)
    except Exception as e:
        return {'fails': [{'sig': 'decoration-error:%s' % type(e).__name__, 'detail': '%s\n%r' % (src, e)}], 'nontrivial': True,
                'classes': ['decoration-error'], 'evals': 1}
    for name in ('iscoroutinefunction', 'isgeneratorfunction', 'isasyncgenfunction'):
        if getattr(inspect, name)(plain) != getattr(inspect, name)(deco):
            fails.append({'sig': 'inspect-kind-differs:%s' % name, 'detail': '%s: plain %r decorated %r' % (
                src, getattr(inspect, name)(plain), getattr(inspect, name)(deco))})
    t1, log1, ignored = run_ops(plain, kind, case['ops'])
    if ignored:
        return {'fails': fails, 'nontrivial': False, 'classes': ['excluded:ignores-GeneratorExit', 'kind:' + kind], 'evals': 1,
                'excluded': 1}
    t2, log2, _ign = run_ops(deco, kind, case['ops'])
    if t2 and t2[0][0] == ['call'] and not (t1 and t1[0][0] == ['call']):
        fails.append({'sig': 'factory-call-raised:%s:%s' % (kind, t2[0][1][1]),
                      'detail': '%s\ncalling the decorated %s function raised %r (the undecorated one returns its object without running any body code)' % (
                          src, kind, t2[0][1])})
        return {'fails': fails, 'nontrivial': True, 'evals': 2, 'classes': ['kind:' + kind, 'ann:' + case['ann'], 'factory-call-raised']}
    def violates(v):
        if kind != 'coro':
            return False
        ann = case['ann']
        if ann in ('int', 'CoroInt'):
            return not isinstance(v, int)
        if ann == 'str':
            return not isinstance(v, str)
        if ann in ('NoReturn', 'Never', 'CoroNoReturn'):
            return True          # returning at all violates "never returns"
        if ann == 'OptInt':
            return v is not None and not isinstance(v, int)
        if ann == 'None':
            return v is not None
        return False
    # step-wise comparison; a coroutine returning a value that violates its annotation must raise the return violation instead
    diff = None
    for idx, ((k1, r1), (k2, r2)) in enumerate(zip(t1, t2)):
        if r1[0] == 'return' and violates(r1[1]):
            if not (r2[0] == 'raise' and r2[1] == 'BeartypeCallHintReturnViolation'):
                op = case['ops'][idx]
                if op[0] == 'throw' and op[1] == 'GeneratorExit' and r2[0] == 'raise' and r2[1] == 'GeneratorExit':
                    # not a question of the return check: the thrown GeneratorExit never reached the point of returning (listed finding)
                    fails.append({'sig': 'trace-differs:%s:throw(GeneratorExit):return->raise:GeneratorExit' % kind,
                                  'detail': '%s\nops=%r plain=%r decorated=%r' % (src, case['ops'], t1, t2)})
                else:
                    fails.append({'sig': 'violating-return-accepted', 'detail': '%s\nops=%r plain=%r decorated=%r' % (src, case['ops'], t1, t2)})
            break   # the two objects are in different states from here on
        if r1 != r2:
            diff = idx
            break
    else:
        if log1 != log2:
            diff = -1
    if diff is not None:
        if diff >= 0:
            op = case['ops'][diff]
            lab = '%s:%s:%s->%s' % (kind, op[0] + ('(%s)' % op[1] if op[0] == 'throw' else ''),
                                    t1[diff][1][0] + (':' + str(t1[diff][1][1]) if t1[diff][1][0] == 'raise' else ''),
                                    t2[diff][1][0] + (':' + str(t2[diff][1][1]) if t2[diff][1][0] == 'raise' else ''))
        else:
            lab = '%s:side-effects' % kind
        fails.append({'sig': 'trace-differs:' + lab, 'detail': '%s\nops=%r\nplain    =%r log=%r\ndecorated=%r log=%r' % (
            src, case['ops'], t1, log1, t2, log2)})
    yielded = False
    nontriv = False
    for (k, r) in t1:
        if k in ('throw', 'close') and yielded:
            nontriv = True
        if r[0] in ('yield', 'suspended'):
            yielded = True
    if any(op[0] == 'send' and op[1] is not None for op in case['ops']):  # incl. falsy non-None values
        nontriv = True
    return {'fails': fails, 'nontrivial': nontriv, 'evals': 2,
            'classes': ['kind:' + kind, 'ann:' + case['ann'], 'nops:%d' % len(case['ops']), 'wraps:%s' % case.get('wraps')]}
