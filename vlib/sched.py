"""Controlled thread scheduler for C15 / C16.

* ``install_coop_locks()`` must run BEFORE beartype is imported: ``threading.Lock`` / ``RLock`` are replaced
  by cooperative wrappers while beartype's modules are imported (they capture the factories with
  ``from threading import Lock, RLock``), and restored afterwards.  Outside a managed run a cooperative
  lock behaves exactly like the real lock it wraps.
* Managed threads run under ``sys.settrace``: every *line* event (opcode events in selected files) inside
  ``<repo>/beartype`` is a yield point at which exactly one thread is allowed to proceed.  A thread that
  would block on a cooperative lock yields to the scheduler instead; if no thread can make progress the run
  is reported as a deadlock instead of hanging.
* A schedule is a list of run lengths: the running thread executes that many yield points, then the next
  runnable thread (round robin) gets the baton; when the list is exhausted the current thread runs to the
  end, then the others.
"""
import sys
import threading

_REAL_LOCK = threading.Lock
_REAL_RLOCK = threading.RLock
_ACTIVE = [None]          # the Scheduler of the managed run in progress, if any
_LOCAL = threading.local()


class Deadlock(Exception):
    pass


class SchedTimeout(Exception):
    pass


class CoopLock:
    """Wrapper around a real (R)Lock; cooperative when acquired by a managed thread."""

    def __init__(self, real):
        self._real = real

    def acquire(self, blocking=True, timeout=-1):
        sched = _ACTIVE[0]
        tid = getattr(_LOCAL, 'tid', None)
        if sched is None or tid is None or not blocking:
            return self._real.acquire(blocking, timeout) if blocking else self._real.acquire(False)
        while not self._real.acquire(False):
            sched.blocked(tid, self)
        sched.progress()
        return True

    def release(self):
        self._real.release()
        sched = _ACTIVE[0]
        if sched is not None:
            sched.progress()
            # the yield point that follows the release of a lock is a sync point: whatever the critical section was meant to
            # publish atomically is now visible to the other threads
            tid = getattr(_LOCAL, 'tid', None)
            if tid is not None and sched.sync_files:
                sched._sync_pending[tid] = True

    __enter__ = acquire

    def __exit__(self, *a):
        self.release()
        return False

    def locked(self):
        return self._real.locked()

    def _is_owned(self):          # used by threading.Condition
        return self._real._is_owned() if hasattr(self._real, '_is_owned') else self._real.locked()

    def __getattr__(self, name):
        return getattr(self._real, name)


def _coop_lock():
    return CoopLock(_REAL_LOCK())


def _coop_rlock():
    return CoopLock(_REAL_RLOCK())


def install_coop_locks():
    threading.Lock = _coop_lock
    threading.RLock = _coop_rlock


def import_lock_users():
    """Import - while the cooperative factories are installed - every beartype module that takes Lock / RLock from ``threading``.
    Several of them (beartype.claw._clawstate for one) are imported lazily, i.e. possibly after restore_real_locks(), and would
    then create real locks the scheduler cannot see: a managed thread blocking on one stalls the whole run."""
    import importlib
    import os
    import re
    import beartype
    root = os.path.dirname(beartype.__file__)
    pat = re.compile(r'^\s*(from threading import|import threading)', re.M)
    for d, _dirs, files in os.walk(root):
        for f in files:
            if not f.endswith('.py'):
                continue
            path = os.path.join(d, f)
            try:
                with open(path, encoding='utf-8') as fh:
                    if not pat.search(fh.read()):
                        continue
            except OSError:
                continue
            rel = os.path.relpath(path, os.path.dirname(root))[:-3].replace(os.sep, '.')
            if rel.endswith('.__init__'):
                rel = rel[:-9]
            try:
                importlib.import_module(rel)
            except Exception:
                pass


def restore_real_locks():
    threading.Lock = _REAL_LOCK
    threading.RLock = _REAL_RLOCK


class Scheduler:
    def __init__(self, nthreads, schedule, trace_prefix, opcode_files=(), step_timeout=20.0, max_steps=400000, defer=None,
                 sync_files=()):
        self.n = nthreads
        # yield points that directly follow a return from a function defined in one of ``sync_files`` (caches, pools, locks,
        # registries: the places where threads meet) are recorded per thread as ``sync_points[tid]`` (indexes into that
        # thread's yield points); a sweep over them preempts a thread exactly where it has just touched shared state
        self.sync_files = tuple(sync_files)
        self.sync_points = [[] for _ in range(nthreads)]
        self._sync_pending = [False] * nthreads
        # ``defer()`` true at a yield point = the running thread holds an uncooperative lock every other thread needs (C16: the
        # interpreter-wide import lock, held while meta-path finders run), so a real preemption there could not let another
        # managed thread advance; the pending switch is postponed to the next yield point where it is false
        self.defer = defer
        self.schedule = list(schedule)
        self.prefix = trace_prefix
        self.opcode_files = tuple(opcode_files)
        self.events = [threading.Event() for _ in range(nthreads)]
        self.done = [False] * nthreads
        self.started = [False] * nthreads
        self.inside = [0] * nthreads       # yield points seen per thread
        self.current = 0
        self.quota = self.schedule.pop(0) if self.schedule else None
        self.switches = 0
        self.concurrent_switches = 0      # suspensions of a thread inside the traced code during which another thread ran traced code
        self.spins = 0
        self.deadlock = False
        self.timeout = False
        self.step_timeout = step_timeout
        self.max_steps = max_steps
        self.steps = 0
        self.errors = [None] * nthreads
        self.results = [None] * nthreads
        self.trace = []                   # (tid, steps run) segments

    # ---- called by managed threads ------------------------------------------------------------
    def _next_runnable(self, tid):
        for d in range(1, self.n + 1):
            t = (tid + d) % self.n
            if not self.done[t] and t != tid:
                return t
        return None

    def _hand_over(self, tid, target, wait=True):
        self.switches += 1
        others = sum(self.inside) - self.inside[tid]
        self.current = target
        self.events[tid].clear()
        self.events[target].set()
        if wait:
            if not self.events[tid].wait(self.step_timeout):
                self.timeout = True
                raise SchedTimeout('thread %d was never rescheduled' % tid)
            # back again: the switch was a concurrent one iff this thread was suspended inside the traced code and some
            # other thread executed traced code in the meantime
            if self.inside[tid] > 0 and sum(self.inside) - self.inside[tid] > others:
                self.concurrent_switches += 1

    def yield_point(self):
        tid = getattr(_LOCAL, 'tid', None)
        if tid is None or _ACTIVE[0] is not self:
            return
        if self._sync_pending[tid]:
            self._sync_pending[tid] = False
            self.sync_points[tid].append(self.inside[tid])
        self.inside[tid] += 1
        self.steps += 1
        if self.steps > self.max_steps:
            self.timeout = True
            raise SchedTimeout('step budget exhausted')
        if self.quota is None:
            return
        if self.quota > 0:
            self.quota -= 1
            return
        if self.defer is not None and self.defer():
            return
        target = self._next_runnable(tid)
        self.quota = self.schedule.pop(0) if self.schedule else None
        if target is not None:
            self._hand_over(tid, target)

    def blocked(self, tid, lock):
        """The managed thread ``tid`` failed to acquire ``lock``: let somebody else run."""
        self.spins += 1
        if self.spins > 50 * self.n:
            self.deadlock = True
            raise Deadlock('no thread can make progress (thread %d waits for a lock)' % tid)
        target = self._next_runnable(tid)
        if target is None:
            self.deadlock = True
            raise Deadlock('thread %d waits for a lock nobody will release' % tid)
        self._hand_over(tid, target)

    def progress(self):
        self.spins = 0

    # ---- thread bodies -----------------------------------------------------------------------------
    def _global_trace(self, frame, event, arg):
        fn = frame.f_code.co_filename
        if fn.startswith(self.prefix):
            if self.opcode_files and fn.endswith(self.opcode_files):
                frame.f_trace_opcodes = True
            return self._local_trace
        return None

    def _local_trace(self, frame, event, arg):
        if event == 'line' or event == 'opcode':
            self.yield_point()
        elif event == 'return' and self.sync_files and frame.f_code.co_filename.endswith(self.sync_files):
            tid = getattr(_LOCAL, 'tid', None)
            if tid is not None and _ACTIVE[0] is self:
                self._sync_pending[tid] = True
        return self._local_trace

    def _body(self, tid, fn):
        _LOCAL.tid = tid
        try:
            if not self.events[tid].wait(self.step_timeout * 3):
                self.timeout = True
                return
            self.started[tid] = True
            sys.settrace(self._global_trace)
            try:
                self.results[tid] = fn()
            except (Deadlock, SchedTimeout) as e:
                self.errors[tid] = e
            except BaseException as e:   # noqa: B902
                self.errors[tid] = e
            finally:
                sys.settrace(None)
        finally:
            self.done[tid] = True
            _LOCAL.tid = None
            target = self._next_runnable(tid)
            if target is not None:
                self.quota = None if not self.schedule else self.quota
                self.current = target
                self.events[target].set()

    def run(self, fns):
        assert len(fns) == self.n
        _ACTIVE[0] = self
        threads = [threading.Thread(target=self._body, args=(i, f), daemon=True) for i, f in enumerate(fns)]
        try:
            for t in threads:
                t.start()
            self.events[0].set()
            for t in threads:
                t.join(self.step_timeout * 4)
                if t.is_alive():
                    self.timeout = True
        finally:
            _ACTIVE[0] = None
        return self
