"""Fork-per-case isolation: run fn(arg) in a forked child of the current
(pristine) process and return its JSON-able result."""
import json
import os
import select
import signal
import sys
import time
import traceback


class IsolateError(Exception):
    pass


def call(fn, arg, timeout=60.0):
    r, w = os.pipe()
    pid = os.fork()
    if pid == 0:
        # child
        code = 0
        try:
            os.close(r)
            try:
                out = {'ok': fn(arg)}
            except BaseException as e:  # harness error inside the child
                out = {'err': ''.join(traceback.format_exception(type(e), e, e.__traceback__))[-4000:]}
            data = json.dumps(out).encode()
            with os.fdopen(w, 'wb') as f:
                f.write(data)
        except BaseException:
            code = 3
        finally:
            os._exit(code)
    os.close(w)
    chunks = []
    deadline = time.monotonic() + timeout
    timed_out = False
    try:
        while True:
            left = deadline - time.monotonic()
            if left <= 0:
                timed_out = True
                break
            rl, _, _ = select.select([r], [], [], left)
            if not rl:
                timed_out = True
                break
            b = os.read(r, 1 << 16)
            if not b:
                break
            chunks.append(b)
    finally:
        os.close(r)
        if timed_out:
            try:
                os.kill(pid, signal.SIGKILL)
            except OSError:
                pass
        os.waitpid(pid, 0)
    if timed_out:
        return {'timeout': True}
    try:
        out = json.loads(b''.join(chunks).decode())
    except Exception:
        raise IsolateError('child died without a result')
    if 'err' in out:
        raise IsolateError(out['err'])
    return out['ok']
