"""Controlled 32-bit sampler.

beartype's generated checkers call ``__beartype_getrandbits(32)`` once per
check; the function object is captured by ``from random import getrandbits``
when ``beartype._check.code.codemain`` (and friends) are first imported. This
module therefore MUST be imported before beartype: it replaces
``random.getrandbits`` by a wrapper that returns the harness-chosen value while
a case is running and delegates to the original otherwise.
"""
import random
import sys

assert 'beartype' not in sys.modules, 'vlib.sampler must be imported before beartype'

_orig_getrandbits = random.getrandbits
_draw = [None]
calls = [0]


def controlled_getrandbits(k):
    v = _draw[0]
    if v is None or k != 32:
        return _orig_getrandbits(k)
    calls[0] += 1
    return v


random.getrandbits = controlled_getrandbits


class draw:
    """Context manager pinning the sampler draw to ``value`` (None = free)."""

    def __init__(self, value):
        self.value = value

    def __enter__(self):
        self.prev = _draw[0]
        _draw[0] = self.value
        return self

    def __exit__(self, *a):
        _draw[0] = self.prev
        return False


def set_draw(value):
    _draw[0] = value


def selftest():
    """The sampler is really the one beartype's generated code uses: either beartype's code generator
    captured our function object, or the verdict on a partly violating list follows the draw. (Only one of
    the two is required so that a behavioural change in beartype is reported by the property checks as a
    violation, not by this self-test as a harness error.)"""
    import sys as _sys
    import beartype.door  # noqa: F401
    for name, mod in list(_sys.modules.items()):
        if name.startswith('beartype.') and getattr(mod, '__dict__', {}).get('getrandbits') is controlled_getrandbits:
            return True
    from beartype.door import is_bearable
    x = [1, 2, 'a', 4]
    got = []
    for r in range(4):
        with draw(r):
            got.append(is_bearable(x, list[int]))
    return got == [True, True, False, True]
