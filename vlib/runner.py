"""Common runner for all property checks.

    ./check <ID> --tier quick|thorough
    ./check <ID> --replay <file>

Exit codes: 0 = property held on everything explored (KNOWN-FINDING lines may be
printed), 1 = at least one violation that known_findings.json does not list
(one ``VIOLATION property=<ID> replay=<path>`` line each), 2 = harness error.
"""
import argparse
import fnmatch
import hashlib
import importlib
import json
import os
import sys
import time
import traceback

VERIF = os.path.dirname(os.path.dirname(os.path.abspath(__file__)))
REPO = os.environ.get('VERIF_REPO', '/repo')
for p in (VERIF, REPO):
    while p in sys.path:
        sys.path.remove(p)
sys.path[:0] = [REPO, VERIF]
# Our own script directory (vlib/) must not shadow anything.
_here = os.path.join(VERIF, 'vlib')
sys.path[:] = [p for p in sys.path if os.path.abspath(p or '.') != _here]

os.environ.setdefault('BEARTYPE_VERIF', '1')
os.environ.pop('BEARTYPE_IS_COLOR', None)  # would override the is_color option under test

from vlib import sampler  # noqa: E402  (must precede beartype)

import multiprocessing  # noqa: E402

NWORKERS = int(os.environ.get('VERIF_WORKERS', '16'))


def canon(case):
    return json.dumps(case, sort_keys=True, default=repr, separators=(',', ':'))


def digest(case):
    return hashlib.blake2b(canon(case).encode(), digest_size=8).digest()


class Agg:
    """Per-shard aggregation of what was generated and what failed."""

    def __init__(self):
        self.cases = 0
        self.evals = 0
        self.nontrivial = set()
        self.classes = {}
        self.samples = []
        self.fails = {}      # sig -> dict(case, detail, count, size)
        self.harness = []
        self.excluded = 0
        self.extra = {}

    def add(self, case, res, shard=None):
        self.cases += 1
        self.evals += int(res.get('evals', 1))
        self.excluded += int(res.get('excluded', 0))
        for k, v in (res.get('extra') or {}).items():
            self.extra[k] = self.extra.get(k, 0) + v
        for c in res.get('classes', ()):
            self.classes[c] = self.classes.get(c, 0) + 1
        if res.get('nontrivial'):
            d = digest(case)
            if d not in self.nontrivial:
                self.nontrivial.add(d)
                if len(self.samples) < 4:
                    s = canon(case)
                    if len(s) < 1500:
                        self.samples.append(case)
        for f in res.get('fails', ()):
            sig = f['sig']
            size = len(canon(case))
            cur = self.fails.get(sig)
            if cur is None:
                self.fails[sig] = {'case': case, 'detail': f.get('detail', ''), 'count': 1,
                                   'size': size, 'shard': shard}
            else:
                cur['count'] += 1
                if size < cur['size']:
                    cur.update(case=case, detail=f.get('detail', ''), size=size, shard=shard)

    def merge(self, o):
        self.cases += o.cases
        self.evals += o.evals
        self.excluded += o.excluded
        self.nontrivial |= o.nontrivial
        for k, v in o.classes.items():
            self.classes[k] = self.classes.get(k, 0) + v
        for k, v in o.extra.items():
            self.extra[k] = self.extra.get(k, 0) + v
        for s in o.samples:
            if len(self.samples) < 6:
                self.samples.append(s)
        for sig, f in o.fails.items():
            cur = self.fails.get(sig)
            if cur is None:
                self.fails[sig] = dict(f)
            else:
                cnt = cur['count'] + f['count']
                if f['size'] < cur['size']:
                    cur.update(f)
                cur['count'] = cnt
        self.harness += o.harness


def load_prop(pid):
    mod = importlib.import_module('vlib.props.' + pid.lower())
    import beartype
    bf = os.path.realpath(beartype.__file__)
    if not bf.startswith(os.path.realpath(REPO) + os.sep):
        raise RuntimeError('beartype imported from %s, not from %s' % (bf, REPO))
    return mod


SHARD_MAX = 2000


def shard_seed(seed, shard):
    return (seed * 1000003 + shard * 7919 + 17) % (2 ** 63)


def _hyp_run(mod, tier, seed, shard, n, body, phases=None):
    import hypothesis
    from hypothesis import HealthCheck, Phase, given, settings
    strat = mod.strategy(tier)
    st = settings(max_examples=max(1, n), database=None, deadline=None,
                  derandomize=False, report_multiple_bugs=False,
                  suppress_health_check=list(HealthCheck),
                  phases=phases or [Phase.generate],
                  verbosity=hypothesis.Verbosity.quiet)

    @hypothesis.seed(shard_seed(seed, shard))
    @st
    @given(strat)
    def t(case):
        body(case)
    t()


def safe_run_case(mod, case, agg, shard=None):
    try:
        res = mod.run_case(case)
    except Exception as e:  # harness bug, never a verdict about beartype
        agg.harness.append({'case': case, 'tb': ''.join(
            traceback.format_exception(type(e), e, e.__traceback__))[-3000:]})
        agg.cases += 1
        return None
    agg.add(case, res, shard)
    return res


class _Capped(Exception):
    """Raised inside a Hypothesis run to end it at once when the wall-clock cap is reached (a cap hit = inconclusive)."""


def shard_worker(args):
    pid, tier, seed, shard, n, deadline = args
    mod = load_prop(pid)
    agg = Agg()
    state = {'capped': False}
    if time.monotonic() > deadline:
        agg.extra['shards_capped'] = 1
        return agg
    if hasattr(mod, 'worker_init'):
        mod.worker_init(tier, shard)

    def body(case):
        if time.monotonic() > deadline:
            state['capped'] = True
            raise _Capped()
        if len(agg.harness) > 20:
            return
        safe_run_case(mod, case, agg, shard)
    try:
        _hyp_run(mod, tier, seed, shard, n, body)
    except _Capped:
        pass
    except Exception as e:
        agg.harness.append({'case': None, 'tb': ''.join(
            traceback.format_exception(type(e), e, e.__traceback__))[-3000:]})
    agg.extra['shards_capped'] = agg.extra.get('shards_capped', 0) + (1 if state['capped'] else 0)
    return agg


def _shrink_child(pid, tier, seed, shard, n, sig, outpath, start_case):
    """Re-find the failure deterministically and let Hypothesis shrink it; the
    best (smallest) failing case so far is always on disk."""
    from hypothesis import Phase
    mod = load_prop(pid)
    if hasattr(mod, 'worker_init'):
        mod.worker_init(tier, shard)
    best = {'size': len(canon(start_case)) if start_case is not None else 1 << 60}

    def body(case):
        try:
            res = mod.run_case(case)
        except Exception:
            return
        if any(f['sig'] == sig for f in res.get('fails', ())):
            size = len(canon(case))
            if size <= best['size']:
                best['size'] = size
                tmp = outpath + '.tmp'
                with open(tmp, 'w') as f:
                    json.dump({'case': case}, f)
                os.replace(tmp, outpath)
            raise AssertionError(sig)
    try:
        _hyp_run(mod, tier, seed, shard, n, body, phases=[Phase.generate, Phase.shrink])
    except BaseException:
        pass


def shrink(pid, tier, seed, fail, sig, budget_s):
    if fail.get('shard') is None or fail.get('n') is None:
        return fail['case']
    outdir = os.path.join(VERIF, 'out', pid)
    os.makedirs(outdir, exist_ok=True)
    outpath = os.path.join(outdir, 'shrink-%s.json' % hashlib.md5(sig.encode()).hexdigest()[:10])
    if os.path.exists(outpath):
        os.remove(outpath)
    ctx = multiprocessing.get_context('fork')
    p = ctx.Process(target=_shrink_child, args=(pid, tier, seed, fail['shard'], fail['n'], sig,
                                                 outpath, fail['case']))
    p.start()
    p.join(budget_s)
    if p.is_alive():
        p.kill()
        p.join()
    try:
        with open(outpath) as f:
            return json.load(f)['case']
    except Exception:
        return fail['case']


def load_known(pid):
    path = os.path.join(VERIF, 'known_findings.json')
    try:
        with open(path) as f:
            data = json.load(f)
    except FileNotFoundError:
        return []
    return [e for e in data.get('findings', []) if e.get('property') == pid and e.get('status') == 'known']


def match_known(known, sig):
    for e in known:
        pats = e.get('sigs') or [e.get('sig')]
        for pat in pats:
            if pat and (sig == pat or fnmatch.fnmatchcase(sig, pat)):
                return e
    return None


def write_evidence(pid, mod, tier, seed, agg, wall, nviol, known_hit, notes):
    cov = {
        'evaluations': agg.evals,
        'cases_generated': agg.cases,
        'distinct_nontrivial': len(agg.nontrivial),
        'rule': getattr(mod, 'RULE', ''),
        'samples': agg.samples[:6] or [{'note': 'no non-trivial sample recorded'}],
        'classes': dict(sorted(agg.classes.items(), key=lambda kv: -kv[1])[:60]),
        'known_findings_hit': known_hit,
        'excluded_by_construction': agg.excluded,
        'exhaustive': bool(getattr(mod, 'EXHAUSTIVE', {}).get(tier, False)) if isinstance(getattr(mod, 'EXHAUSTIVE', None), dict) else False,
    }
    cov.update(agg.extra)
    cov.update(notes)
    ev = {
        'property_id': pid,
        'tier': tier,
        'seed': seed,
        'level': getattr(mod, 'LEVEL', 'exploration'),
        'coverage': cov,
        'assumptions': list(getattr(mod, 'ASSUMPTIONS', [])),
        'wall_s': round(wall, 2),
        'violations': nviol,
    }
    os.makedirs(os.path.join(VERIF, 'evidence'), exist_ok=True)
    path = os.path.join(VERIF, 'evidence', pid + '.json')
    if os.path.realpath(REPO) != '/repo':
        # a run against a scratch worktree (seeded change) never overwrites the evidence of /repo itself
        os.makedirs(os.path.join(VERIF, 'out', pid), exist_ok=True)
        path = os.path.join(VERIF, 'out', pid, 'evidence-scratch-tree.json')
    tmp = path + '.tmp'
    with open(tmp, 'w') as f:
        json.dump(ev, f, indent=1, sort_keys=True, default=repr)
    os.replace(tmp, path)


def run_replays(pid, mod, agg, only=None):
    """Deterministic replay tier: every saved case is re-executed without the
    generator library."""
    rdir = os.path.join(VERIF, 'replays', pid)
    files = [only] if only else sorted(
        os.path.join(rdir, f) for f in os.listdir(rdir) if f.endswith('.json')) if os.path.isdir(rdir) else []
    per_file = {}
    for path in files:
        with open(path) as f:
            doc = json.load(f)
        case = doc['case'] if isinstance(doc, dict) and 'case' in doc else doc
        before = set(agg.fails)
        sub = Agg()
        res = safe_run_case(mod, case, sub)
        per_file[path] = [f['sig'] for f in (res or {}).get('fails', ())]
        for sig, f in sub.fails.items():
            f['replay_path'] = path
        agg.merge(sub)
        for sig in sub.fails:
            if sig not in before:
                agg.fails[sig]['replay_path'] = path
    return per_file


def main(argv=None):
    ap = argparse.ArgumentParser()
    ap.add_argument('pid')
    ap.add_argument('--tier', default=os.environ.get('VERIF_TIER', 'quick'), choices=['quick', 'thorough'])
    ap.add_argument('--replay', default=None)
    ap.add_argument('--n', type=int, default=None, help='override case budget')
    ap.add_argument('--no-shrink', action='store_true')
    a = ap.parse_args(argv)
    pid = a.pid.upper()
    tier = a.tier
    try:
        seed = int(os.environ.get('VERIF_SEED', '1') or '1')
    except ValueError:
        seed = 1
    t0 = time.monotonic()
    try:
        mod = load_prop(pid)
        if not sampler.selftest():
            raise RuntimeError('sampler self-test failed: beartype does not use the controlled sampler')
    except Exception:
        traceback.print_exc()
        print('HARNESS-ERROR property=%s could not load' % pid)
        return 2
    known = load_known(pid)
    total = Agg()
    notes = {}

    if a.replay:
        per = run_replays(pid, mod, total, only=a.replay)
        bad = 0
        for sig, f in total.fails.items():
            e = match_known(known, sig)
            if e:
                print('KNOWN-FINDING: property=%s %s' % (pid, e.get('what', sig)))
            else:
                bad += 1
                print('replay fails: sig=%s detail=%s' % (sig, f['detail'][:500]))
                print('VIOLATION property=%s replay=%s' % (pid, a.replay))
        if total.harness:
            print(total.harness[0]['tb'])
            return 2
        return 1 if bad else 0

    # 1. replay tier
    run_replays(pid, mod, total)
    notes['replayed_files'] = total.cases
    # 2. generated search
    budget = a.n or mod.BUDGET[tier]
    cap = float(os.environ.get('VERIF_CAP_S', getattr(mod, 'CAP_S', {'quick': 240, 'thorough': 3000})[tier]))
    nshards = min(NWORKERS, getattr(mod, 'MAX_SHARDS', NWORKERS), max(1, budget))
    per = max(1, budget // nshards)
    # big budgets are cut into more (virtual) shards than worker processes, each a seeded Hypothesis run of at most SHARD_MAX
    # cases: a shard that starts after the wall-clock cap is skipped, one that is running stops at its next case
    njobs = nshards
    if per > SHARD_MAX:
        njobs = -(-budget // SHARD_MAX)
        per = -(-budget // njobs)
    deadline = time.monotonic() + cap
    jobs = [(pid, tier, seed, s, per, deadline) for s in range(njobs)]
    if budget > 0:
        ctx = multiprocessing.get_context('fork')
        with ctx.Pool(nshards) as pool:
            results = list(pool.imap_unordered(shard_worker, jobs, chunksize=1))
        for r in results:
            for f in r.fails.values():
                f['n'] = per
            total.merge(r)
    # 3. optional extra engine (exhaustive enumeration etc.)
    if hasattr(mod, 'extra_engine'):
        try:
            sub = Agg()
            mod.extra_engine(tier, seed, sub, safe_run_case)
            total.merge(sub)
        except Exception as e:
            total.harness.append({'case': None, 'tb': ''.join(
                traceback.format_exception(type(e), e, e.__traceback__))[-3000:]})
    # 4. optional coverage-guided engine: libFuzzer (atheris) campaigns over the same strategy and oracle (vlib/fuzz.py)
    fz = getattr(mod, 'FUZZ', {}).get(tier)
    if fz and not a.n:
        try:
            from vlib import fuzz
            sub = Agg()
            fuzz.campaign(mod, pid, tier, seed, sub, safe_run_case, int(os.environ.get('VERIF_FUZZ_S', fz[0])), fz[1])
            total.merge(sub)
        except Exception as e:
            total.harness.append({'case': None, 'tb': ''.join(
                traceback.format_exception(type(e), e, e.__traceback__))[-3000:]})
    notes['budget_cases'] = budget
    notes['shards'] = njobs
    notes['worker_processes'] = nshards
    if total.extra.get('shards_capped'):
        notes['inconclusive_wall_cap_hit'] = True

    # 4. classify failures
    nviol = 0
    known_hit = {}
    lines = []
    outdir = os.path.join(VERIF, 'out', pid)
    new_sigs = []
    for sig in sorted(total.fails):
        f = total.fails[sig]
        e = match_known(known, sig)
        if e is not None:
            key = e.get('what', sig)
            known_hit[key] = known_hit.get(key, 0) + f['count']
            continue
        new_sigs.append(sig)
    # shrink (bounded, in parallel; at most 16 root causes are shrunk, the rest keep
    # the smallest collected case)
    shrunk = {}
    to_shrink = [s_ for s_ in new_sigs if not a.no_shrink and 'replay_path' not in total.fails[s_]][:16]
    if to_shrink:
        from concurrent.futures import ThreadPoolExecutor
        budget_s = 40 if tier == 'quick' else 240
        with ThreadPoolExecutor(len(to_shrink)) as ex:
            futs = {s_: ex.submit(shrink, pid, tier, seed, total.fails[s_], s_, budget_s) for s_ in to_shrink}
            for s_, fu in futs.items():
                try:
                    shrunk[s_] = fu.result()
                except Exception:
                    pass
    for sig in new_sigs:
        f = total.fails[sig]
        nviol += 1
        case = shrunk.get(sig, f['case'])
        if 'replay_path' in f:
            path = f['replay_path']
        else:
            os.makedirs(outdir, exist_ok=True)
            path = os.path.join(outdir, 'viol-%s.json' % hashlib.md5(sig.encode()).hexdigest()[:10])
            with open(path, 'w') as fh:
                json.dump({'property': pid, 'sig': sig, 'detail': f['detail'], 'count': f['count'],
                           'seed': seed, 'tier': tier, 'case': case}, fh, indent=1, default=repr)
        lines.append('violation sig=%s count=%d detail=%s' % (sig, f['count'], f['detail'][:600].replace('\n', ' | ')))
        lines.append('VIOLATION property=%s replay=%s' % (pid, path))
    for what, cnt in sorted(known_hit.items()):
        print('KNOWN-FINDING: property=%s %s (hit %d times)' % (pid, what, cnt))
    wall = time.monotonic() - t0
    try:
        write_evidence(pid, mod, tier, seed, total, wall, nviol, known_hit, notes)
    except Exception:
        traceback.print_exc()
        return 2
    if total.harness:
        print('HARNESS-ERROR property=%s (%d); first:' % (pid, len(total.harness)))
        print(total.harness[0]['tb'])
        if total.harness[0]['case'] is not None:
            print('case:', canon(total.harness[0]['case'])[:1500])
        return 2
    for ln in lines:
        print(ln)
    print('%s tier=%s seed=%d cases=%d evaluations=%d distinct_nontrivial=%d violations=%d known=%d wall=%.1fs' % (
        pid, tier, seed, total.cases, total.evals, len(total.nontrivial), nviol, len(known_hit), wall))
    return 1 if nviol else 0


def _main_in_scratch():
    """Every temporary directory of a run (scratch packages of C05 / C16, ...) lives under one per-run directory that is removed
    when the run ends, however its worker processes ended."""
    import shutil
    import tempfile
    scratch = tempfile.mkdtemp(prefix='verif_run_')
    os.environ['TMPDIR'] = scratch
    tempfile.tempdir = None
    try:
        return main()
    except SystemExit:
        raise
    except BaseException:     # whatever goes wrong in the harness itself is a harness error (exit 2), never a verdict
        traceback.print_exc()
        print('HARNESS-ERROR the runner itself failed')
        return 2
    finally:
        shutil.rmtree(scratch, ignore_errors=True)


if __name__ == '__main__':
    sys.exit(_main_in_scratch())
