"""The six public entry points under one (hint, object, configuration, draw)."""
import json
import re
import warnings

from vlib import sampler

from beartype import BeartypeConf, BeartypeStrategy, BeartypeViolationVerbosity, beartype
from beartype.door import TypeHint, die_if_unbearable, is_bearable
from beartype.roar import (BeartypeCallHintParamViolation, BeartypeCallHintReturnViolation,
                           BeartypeDoorHintViolation)

from vlib import hints as H


class UserViolation(Exception):
    pass


class UserViolation2(Exception):
    pass


class UserWarnViolation(UserWarning):
    pass


VIOL_CLASSES = {'UserViolation': UserViolation, 'UserViolation2': UserViolation2,
                'UserWarnViolation': UserWarnViolation}

ENTRY_POINTS = ('is_bearable', 'die_if_unbearable', 'TypeHint.is_bearable', 'TypeHint.die_if_unbearable',
                'param', 'return')



def _has_pep646(node):
    """PEP 646 unpacked tuples (tuple[*tuple[int, str], float]) are equally "currently unsupported" by TypeHint."""
    if node[0] == 'tupf' and node[2] in ('u', 'v') and len(node[1]) >= 2:
        return True
    found = []
    H._map_children(node, lambda ch: found.append(_has_pep646(ch)) or ch)
    return any(found)


def entry_points_for(node):
    """beartype.door.TypeHint documents PEP 695 type aliases as "currently unsupported" (BeartypeDoorNonpepException at
    construction, or when the children of the wrapper are built): hints mentioning an alias are outside the domain of the two
    TypeHint entry points; the functional door API and the decorator support them."""
    if 'alias' in H.node_kinds(node) or _has_pep646(node):
        return tuple(ep for ep in ENTRY_POINTS if not ep.startswith('TypeHint.'))
    return ENTRY_POINTS


_CONFS = {}


def conf_from_spec(spec):
    """spec: JSON dict of option -> token."""
    key = json.dumps(spec, sort_keys=True)
    c = _CONFS.get(key)
    if c is None:
        kw = {}
        for o, v in spec.items():
            if o == 'strategy':
                kw[o] = BeartypeStrategy[v]
            elif o == 'violation_verbosity':
                kw[o] = BeartypeViolationVerbosity[v]
            elif o.startswith('violation_') and o.endswith('type'):
                kw[o] = VIOL_CLASSES[v] if v is not None else None
            elif o == 'hint_overrides':
                from beartype import FrozenDict
                kw[o] = FrozenDict({H.build(a): H.build(b) for a, b in v})
            else:
                kw[o] = v
        c = _CONFS[key] = BeartypeConf(**kw)
    return c


_HINTS = {}
_FUNCS = {}


def hint_of(node):
    key = json.dumps(node)
    h = _HINTS.get(key)
    if h is None:
        h = _HINTS[key] = (H.build(node),)
    return h[0]


def funcs_of(node, spec):
    key = (json.dumps(node), json.dumps(spec, sort_keys=True))
    f = _FUNCS.get(key)
    if f is None:
        hint = hint_of(node)
        conf = conf_from_spec(spec)

        def vparam(p):
            return None
        vparam.__annotations__ = {'p': hint}

        def vreturn(p):
            return p
        vreturn.__annotations__ = {'return': hint}

        def vident(p):
            return p
        vident.__annotations__ = {'p': hint, 'return': hint}
        deco = beartype(conf=conf)
        f = _FUNCS[key] = (deco(vparam), deco(vreturn), deco(vident))
        if len(_FUNCS) > 4000:
            _FUNCS.clear()
    return f


class _Junk:
    """Argument for parameters that carry no hint (or an ignorable one): conforms to no hint of the grammar that checks anything."""
    def __repr__(self):
        return '<junk>'


JUNK = _Junk()
_SIG_SRC = '''
def s_kwonly(a, *, p): return None
def s_posonly(p, /, b=None): return None
def s_default(a=None, p=None): return None
def s_varargs(a, *args): return None
def s_varkw(a=None, b=None, *, c=None, **kw): return None
def s_varkw_only(**kw): return None
'''
# label -> (function name, annotated parameter, how the object x is passed next to junk for the other parameters)
SIG_SHAPES = {
    'kwonly': ('s_kwonly', 'p', lambda f, x: f(JUNK, p=x)),
    'posonly': ('s_posonly', 'p', lambda f, x: f(x, b=JUNK)),
    'default-by-keyword': ('s_default', 'p', lambda f, x: f(p=x)),
    'default-by-position': ('s_default', 'p', lambda f, x: f(JUNK, x)),
    'varargs': ('s_varargs', 'args', lambda f, x: f(JUNK, x, x)),
    'varkw-others-by-keyword': ('s_varkw', 'kw', lambda f, x: f(a=JUNK, b=JUNK, c=JUNK, k=x)),
    'varkw-others-by-position': ('s_varkw', 'kw', lambda f, x: f(JUNK, JUNK, k1=x, k2=x)),
    'varkw-only': ('s_varkw_only', 'kw', lambda f, x: f(k=x)),
}
_SIGS = {}


def sigs_of(node, spec):
    """{label: decorated function} - the hint on one parameter of signatures with parameters of every kind; the other parameters
    are unannotated or carry ignorable hints (object, Any) and receive JUNK."""
    key = (json.dumps(node), json.dumps(spec, sort_keys=True))
    d = _SIGS.get(key)
    if d is None:
        import typing
        hint = hint_of(node)
        deco = beartype(conf=conf_from_spec(spec))
        d = {}
        for label, (fname, pname, _call) in SIG_SHAPES.items():
            ns = {}
            exec(_SIG_SRC, ns)
            f = ns[fname]
            f.__module__ = __name__
            f.__annotations__ = {pname: hint}
            if fname == 's_varkw':
                f.__annotations__.update(b=object, c=typing.Any)
            d[label] = deco(f)
        if len(_SIGS) > 2000:
            _SIGS.clear()
        _SIGS[key] = d
    return d


def expected_violation_class(spec, ep):
    """The configured violation class for an entry point (documentation of the violation_* options)."""
    vt = spec.get('violation_type')
    if ep == 'param':
        own, dflt = spec.get('violation_param_type'), BeartypeCallHintParamViolation
    elif ep == 'return':
        own, dflt = spec.get('violation_return_type'), BeartypeCallHintReturnViolation
    else:
        own, dflt = spec.get('violation_door_type'), BeartypeDoorHintViolation
    name = own or vt
    return VIOL_CLASSES[name] if name else dflt


def call_entry(ep, node, vast, spec, r):
    """Run one entry point.  Returns dict(verdict=accept|reject|error, exc=<exception object or None>,
    warnings=[...], result=<returned object>, obj=<the checked object>)."""
    hint = hint_of(node)
    conf = conf_from_spec(spec)
    x = H.realize(vast)
    out = {'obj': x, 'exc': None, 'warnings': [], 'result': None}
    with warnings.catch_warnings(record=True) as wlist:
        warnings.simplefilter('always')
        try:
            with sampler.draw(r):
                if ep == 'is_bearable':
                    res = is_bearable(x, hint, conf=conf)
                elif ep == 'die_if_unbearable':
                    res = die_if_unbearable(x, hint, conf=conf)
                elif ep == 'TypeHint.is_bearable':
                    res = TypeHint(hint).is_bearable(x, conf=conf)
                elif ep == 'TypeHint.die_if_unbearable':
                    res = TypeHint(hint).die_if_unbearable(x, conf=conf)
                elif ep == 'param':
                    res = funcs_of(node, spec)[0](x)
                elif ep == 'return':
                    res = funcs_of(node, spec)[1](x)
                elif ep == 'ident':
                    res = funcs_of(node, spec)[2](x)
                elif ep.startswith('sig:'):
                    res = SIG_SHAPES[ep[4:]][2](sigs_of(node, spec)[ep[4:]], x)
                else:
                    raise ValueError(ep)
            out['result'] = res
            if ep in ('is_bearable', 'TypeHint.is_bearable'):
                if res is True:
                    out['verdict'] = 'accept'
                elif res is False:
                    out['verdict'] = 'reject'
                else:
                    out['verdict'] = 'error'
                    out['exc'] = TypeError('is_bearable returned %r' % (res,))
            else:
                out['verdict'] = 'accept'
        except Exception as e:
            out['exc'] = e
            out['verdict'] = 'raised'
    out['warnings'] = [w for w in wlist]
    return out


_ANSI = re.compile(r'\x1b\[[0-9;]*m')


def strip_ansi(s):
    return _ANSI.sub('', s)


def where(e):
    """Innermost beartype frame of an exception: 'path/in/beartype.py:function'."""
    import traceback
    w = '?'
    for fr in traceback.extract_tb(e.__traceback__):
        if '/beartype/' in fr.filename:
            w = fr.filename.rsplit('/beartype/', 1)[1] + ':' + fr.name
    return w
